"""Campaign definitions: which presets decide which property, how many runs
per tier, evidence wording."""

def V(preset, q_runs, q_budget, t_runs, t_budget, name=None, variant=None, env=None):
    d = {"preset": preset, "quick": {"runs": q_runs, "budget_s": q_budget}, "thorough": {"runs": t_runs, "budget_s": t_budget}}
    d["name"] = name or preset
    d["variant"] = variant or preset
    if env:
        d["env"] = env
    return d

CRON_RULE = ("one evaluation = one simulated run (one synctest bubble) of a seeded plan: population of JobConfigs with generated cron "
             "expression sets/timezones/constraints/persisted status, dynamic config, tick-jitter and stall schedule, user operations or "
             "crash/restart plan, executed against the real CronWorker+ticker+heap+informer handlers under a seeded scheduler. A run is "
             "non-trivial if at least one schedule request was produced and the completeness check ran at the end of at least one pass; "
             "distinct = distinct hashes of the full sequence of scheduler decisions (action kind + target) among non-trivial runs.")

CAMPAIGNS = {
    "C01": {"variants": [V("cron-tick", 4800, 60, 120000, 1500)], "rule": CRON_RULE,
            "expect_probes": ["probe.cron_cap_hit", "probe.cron_exact_checked", "probe.cron_complete_checked", "proc.stall"],
            "shrink_s": {"quick": 45, "thorough": 240}},
    "C03": {"variants": [V("cron-tick", 4800, 60, 120000, 1500)], "rule": CRON_RULE,
            "expect_probes": ["probe.cron_flush_processed", "probe.cron_unstable_pass"],
            "shrink_s": {"quick": 45, "thorough": 240}},
    "C04": {"variants": [V("cron-tick", 4800, 60, 100000, 1500)], "rule": CRON_RULE,
            "expect_probes": ["proc.restart", "probe.cron_cap_hit"],
            "shrink_s": {"quick": 45, "thorough": 240}},
}

LEVELS = {"C09": "fault_enumeration"}

REAL_COMPONENTS = [
    "pkg/execution/controllers/{croncontroller,jobqueuecontroller,jobcontroller,jobconfigcontroller} (workers, reconcilers, informer handlers, controls)",
    "pkg/execution/stores/activejobstore", "pkg/runtime/reconciler (Start/worker/work/syncItem retry logic)",
    "pkg/execution/util/**, pkg/execution/taskexecutor/**, pkg/execution/mutation, pkg/execution/validation, pkg/execution/webhooks/* (Handle)",
    "pkg/utils/**, pkg/core/**, generated listers and informer group accessors, github.com/furiko-io/cronexpr, client-go rate limiter",
]
STUB_COMPONENTS = [
    "Kubernetes API server (SimAPI: names, UIDs, resourceVersions, optimistic concurrency, status subresource, finalizers, graceful pod deletion, admission chain)",
    "watch/informer transport (per-process cache position + per-listener FIFO, relist, resync)", "workqueue (client-go dirty/processing semantics, scheduler-driven Get)",
    "kubelet+scheduler (scripted per Pod)", "garbage collector", "user", "event recording (dropped)", "dynamic config source (in-memory)",
    "controller.go glue of each controller (NewController/Run are mirrored by the harness, not executed)",
]

ASSUMPTIONS = {
    "*": ["the simulated API server, informer transport, workqueue, kubelet and GC follow documented Kubernetes semantics",
          "interleavings are explored at seam granularity (API call legs, cache reads, store calls, queue hand-off, timers), not inside furiko's own lock-free code",
          "a clean batch is sampling evidence, not proof"],
    "C01": ["cron semantics at DST folds and of L/W/# are cronexpr's and excluded from generation"],
}

FULL_RULE = ("one evaluation = one simulated run of a seeded plan against the complete execution controller manager (cron, job-queue, job, "
             "job-config controllers, active job store) plus real admission webhooks, with simulated API server, informers, workqueues, "
             "kubelet, GC and user: JobConfigs/Jobs/pod scripts/user operations/fault windows/pinned faults/crashes/cache lags are drawn "
             "from the seed, the interleaving from the choice stream; after the main phase all faults stop and the system is drained to a "
             "fixpoint where the liveness clauses are asserted. A run is non-trivial if the property's monitor judged at least one "
             "non-vacuous instance (see nonTrivialFull in preset_full.go); distinct = distinct hashes of the full scheduler decision sequence.")

for _p, _q, _t in [("C02", 3200, 60000), ("C05", 3200, 60000), ("C06", 3200, 60000), ("C07", 3200, 60000), ("C08", 3200, 60000),
                   ("C09", 3200, 60000), ("C10", 3200, 60000), ("C11", 3200, 60000), ("C12", 3200, 60000), ("C13", 3200, 60000),
                   ("C15", 3200, 60000)]:
    CAMPAIGNS[_p] = {"variants": [V("full", _q, 150, _t, 1800)], "rule": FULL_RULE, "expect_probes": [], "shrink_s": {"quick": 60, "thorough": 300}}

CAMPAIGNS["C19"] = {"variants": [V("config", 4800, 60, 120000, 1500)],
    "rule": ("one evaluation = one simulated run of a seeded sequence of 5-35 ConfigMap/Secret create/update/delete/resync events (YAML or JSON payloads per config "
             "kind with every field absent/zero/non-zero, malformed keys, wrong-typed fields, non-base64 secrets, unknown keys) against the real ConfigManager, "
             "DefaultsLoader, ConfigMapLoader and SecretLoader with the real client-go informers they create, inside the virtual-time bubble; all three configs are read "
             "after every event and compared field by field with a layered last-known-good reference model. Non-trivial = more than 3 comparisons and at least one in which "
             "a ConfigMap/Secret layer set a field; distinct = distinct event-sequence hashes."),
    "expect_probes": ["config.malformed", "mon.c19.undecodable"], "shrink_s": {"quick": 45, "thorough": 200}}

CAMPAIGNS["C20"] = {"variants": [V("full", 1600, 150, 40000, 1800)],
    "rule": FULL_RULE + " For C20 every evaluation executes the plan twice - a fault-free twin (fair scheduler, no faults) and the faulty run - and compares the "
            "observable outcome (scheduled Jobs created, per-Job result, Pods created per Job, TTL deletions, final JobConfig active/queued) modulo time, with all safety "
            "monitors of C02, C05-C13 armed in both.",
    "expect_probes": ["api.drop", "api.lostack", "api.conflict"], "shrink_s": {"quick": 60, "thorough": 300}}

SWEEP_NOTE = (" The 'sweep' variant is a complete single-fault enumeration: a small fault-free pilot plan (<=3 Jobs, fair scheduler) is executed, then re-executed once "
              "for every (API call ordinal, fault kind in {drop, lost ack, crash before, crash after}) pair with exactly that fault pinned; coverage keys "
              "sweep.pilots_enumerated_completely / sweep.fault_points_of_complete_pilots count the pilots whose space was enumerated completely.")
for _p in ("C09", "C05", "C20"):
    CAMPAIGNS[_p]["variants"].append(V("full", 40 if _p == "C09" else 12, 60, 3000, 1500, name="sweep", variant="sweep"))
    CAMPAIGNS[_p]["rule"] += SWEEP_NOTE

CAMPAIGNS["C04"]["variants"].append(V("full", 1200, 90, 30000, 1200, name="cron-e2e", variant="full"))
CAMPAIGNS["C04"]["rule"] += (" The 'cron-e2e' variant runs the same oracle inside the complete controller manager: the real job-config controller persists "
                              "status.lastScheduled from the Jobs that were actually created, the process is crashed and restarted with downtimes around the threshold.")
