package furisim

import (
	"context"
	"encoding/json"
	"time"
	"fmt"

	jsonpatch "github.com/evanphx/json-patch"
	admissionv1 "k8s.io/api/admission/v1"
	apierrors "k8s.io/apimachinery/pkg/api/errors"
	metav1 "k8s.io/apimachinery/pkg/apis/meta/v1"
	"k8s.io/apimachinery/pkg/runtime"

	"github.com/furiko-io/furiko/pkg/execution/webhooks/jobconfigmutatingwebhook"
	"github.com/furiko-io/furiko/pkg/execution/webhooks/jobconfigvalidatingwebhook"
	"github.com/furiko-io/furiko/pkg/execution/webhooks/jobmutatingwebhook"
	"github.com/furiko-io/furiko/pkg/execution/webhooks/jobvalidatingwebhook"
)

type admissionHandler interface {
	Handle(ctx context.Context, req *admissionv1.AdmissionRequest) (*admissionv1.AdmissionResponse, error)
}

// startWebhooks creates the webhook process (real furiko webhooks) and
// installs the admission chain on the API server. Its JobConfig cache follows
// the API instantly unless a lag is planned.
func (w *World) startWebhooks() {
	s := w.Sim
	p := &Proc{sim: s, api: w.API, w: w, name: "webhook", informers: map[Resource]*simInformer{},
		cacheWeight: 10, notifyWeight: 10, held: map[Resource]time.Time{}}
	p.stores = &simStores{p: p}
	cc := &simContext{p}
	jm, err := jobmutatingwebhook.NewWebhook(cc)
	if err != nil {
		panic(err)
	}
	jv, err := jobvalidatingwebhook.NewWebhook(cc)
	if err != nil {
		panic(err)
	}
	jcm, err := jobconfigmutatingwebhook.NewWebhook(cc)
	if err != nil {
		panic(err)
	}
	jcv, err := jobconfigvalidatingwebhook.NewWebhook(cc)
	if err != nil {
		panic(err)
	}
	p.startInformers()
	inf := p.informerFor(ResJobConfigs)
	inf.initialSync()
	w.Webhook = p
	// instant cache: follow the API log synchronously.
	w.API.Listen(func(ev *APIEvent) {
		if ev.Res != ResJobConfigs || w.webhookLag {
			return
		}
		for inf.pos < w.API.LogLen(ResJobConfigs) {
			inf.advance()
		}
	})
	chain := map[Resource][2]admissionHandler{
		ResJobs:       {jm, jv},
		ResJobConfigs: {jcm, jcv},
	}
	kinds := map[Resource]metav1.GroupVersionKind{
		ResJobs:       {Group: "execution.furiko.io", Version: "v1alpha1", Kind: "Job"},
		ResJobConfigs: {Group: "execution.furiko.io", Version: "v1alpha1", Kind: "JobConfig"},
	}
	w.API.Admission = func(res Resource, op string, old, obj runtime.Object) (runtime.Object, error) {
		hs, ok := chain[res]
		if !ok {
			return obj, nil
		}
		if w.webhookDown {
			s.Faults["webhook.down"]++
			return nil, apierrors.NewInternalError(fmt.Errorf("failed calling webhook: connection refused"))
		}
		raw, err := json.Marshal(obj)
		if err != nil {
			panic(err)
		}
		req := &admissionv1.AdmissionRequest{Kind: kinds[res], Operation: admissionv1.Operation(op),
			Name: accessor(obj).GetName(), Namespace: accessor(obj).GetNamespace(), Object: runtime.RawExtension{Raw: raw}}
		if old != nil {
			oraw, err := json.Marshal(old)
			if err != nil {
				panic(err)
			}
			req.OldObject = runtime.RawExtension{Raw: oraw}
		}
		resp, err := hs[0].Handle(context.Background(), req)
		if err != nil {
			return nil, apierrors.NewInternalError(err)
		}
		if !resp.Allowed {
			s.Stats["admission.denied.mutating."+string(res)]++
			return nil, &apierrors.StatusError{ErrStatus: *resp.Result}
		}
		if len(resp.Patch) > 0 {
			patch, err := jsonpatch.DecodePatch(resp.Patch)
			if err != nil {
				return nil, apierrors.NewInternalError(err)
			}
			raw, err = patch.Apply(raw)
			if err != nil {
				return nil, apierrors.NewInternalError(fmt.Errorf("cannot apply webhook patch: %w", err))
			}
			s.Stats["admission.patched."+string(res)]++
		}
		req.Object = runtime.RawExtension{Raw: raw}
		resp, err = hs[1].Handle(context.Background(), req)
		if err != nil {
			return nil, apierrors.NewInternalError(err)
		}
		if !resp.Allowed {
			s.Stats["admission.denied.validating."+string(res)]++
			return nil, &apierrors.StatusError{ErrStatus: *resp.Result}
		}
		out := newObject(res)
		if err := json.Unmarshal(raw, out); err != nil {
			return nil, apierrors.NewInternalError(err)
		}
		return out, nil
	}
}
