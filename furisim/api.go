package furisim

import (
	"encoding/json"
	"fmt"
	"reflect"
	"sort"
	"strconv"
	"time"

	corev1 "k8s.io/api/core/v1"
	apierrors "k8s.io/apimachinery/pkg/api/errors"
	"k8s.io/apimachinery/pkg/api/meta"
	metav1 "k8s.io/apimachinery/pkg/apis/meta/v1"
	"k8s.io/apimachinery/pkg/runtime"
	"k8s.io/apimachinery/pkg/runtime/schema"
	"k8s.io/apimachinery/pkg/types"

	execution "github.com/furiko-io/furiko/apis/execution/v1alpha1"
)

type Resource string

const (
	ResJobConfigs Resource = "jobconfigs"
	ResJobs       Resource = "jobs"
	ResPods       Resource = "pods"
)

var allResources = []Resource{ResJobConfigs, ResJobs, ResPods}

func groupResource(r Resource) schema.GroupResource {
	if r == ResPods {
		return schema.GroupResource{Group: "", Resource: "pods"}
	}
	return schema.GroupResource{Group: "execution.furiko.io", Resource: string(r)}
}

func newObject(r Resource) runtime.Object {
	switch r {
	case ResJobConfigs:
		return &execution.JobConfig{}
	case ResJobs:
		return &execution.Job{}
	case ResPods:
		return &corev1.Pod{}
	}
	panic("unknown resource " + r)
}

func resourceOf(obj runtime.Object) Resource {
	switch obj.(type) {
	case *execution.JobConfig:
		return ResJobConfigs
	case *execution.Job:
		return ResJobs
	case *corev1.Pod:
		return ResPods
	}
	panic(fmt.Sprintf("unknown object type %T", obj))
}

func hasStatusSubresource(r Resource) bool { return r == ResJobConfigs || r == ResJobs }

func accessor(obj runtime.Object) metav1.Object {
	m, err := meta.Accessor(obj)
	if err != nil {
		panic(err)
	}
	return m
}

func objKeyOf(obj runtime.Object) string {
	m := accessor(obj)
	return m.GetNamespace() + "/" + m.GetName()
}

// roundTrip serialises and deserialises an object the way the API server
// does: in particular metav1.Time is truncated to whole seconds.
func roundTrip(r Resource, obj runtime.Object) runtime.Object {
	b, err := json.Marshal(obj)
	if err != nil {
		panic(err)
	}
	out := newObject(r)
	if err := json.Unmarshal(b, out); err != nil {
		panic(err)
	}
	return out
}

func copyStatus(r Resource, dst, src runtime.Object) {
	switch r {
	case ResJobConfigs:
		dst.(*execution.JobConfig).Status = *src.(*execution.JobConfig).Status.DeepCopy()
	case ResJobs:
		dst.(*execution.Job).Status = *src.(*execution.Job).Status.DeepCopy()
	case ResPods:
		dst.(*corev1.Pod).Status = *src.(*corev1.Pod).Status.DeepCopy()
	}
}

// APIEvent is one committed change of the authoritative state.
type APIEvent struct {
	Seq   uint64
	Type  string // ADDED, MODIFIED, DELETED
	Res   Resource
	Key   string
	Obj   runtime.Object // state after (for DELETED: last state)
	Old   runtime.Object // state before (nil for ADDED)
	Actor string
	Verb  string
	Time  time.Time
	Step  int
	Stamp uint64
}

// AdmissionFunc runs the admission chain; returns the (possibly mutated)
// object or an error to be returned to the caller.
type AdmissionFunc func(res Resource, op string, old, obj runtime.Object) (runtime.Object, error)

type SimAPI struct {
	sim       *Sim
	rv        uint64
	uidN      uint64
	objs      map[Resource]map[string]runtime.Object
	log       map[Resource][]*APIEvent
	History   []*APIEvent
	Admission AdmissionFunc
	listeners []func(*APIEvent)
	// pre-effect hooks: monitors that must judge a write against the state
	// before it is applied.
	preHooks []func(actor, verb string, res Resource, old, obj runtime.Object)
	podGrace func(pod *corev1.Pod) bool // returns true if a graceful delete must wait for the kubelet
}

func NewSimAPI(s *Sim) *SimAPI {
	a := &SimAPI{sim: s, objs: map[Resource]map[string]runtime.Object{}, log: map[Resource][]*APIEvent{}}
	for _, r := range allResources {
		a.objs[r] = map[string]runtime.Object{}
	}
	return a
}

func (a *SimAPI) Listen(f func(*APIEvent)) { a.listeners = append(a.listeners, f) }
func (a *SimAPI) PreHook(f func(actor, verb string, res Resource, old, obj runtime.Object)) {
	a.preHooks = append(a.preHooks, f)
}

func (a *SimAPI) LogLen(r Resource) int { return len(a.log[r]) }
func (a *SimAPI) LogAt(r Resource, i int) *APIEvent {
	return a.log[r][i]
}

func (a *SimAPI) nextRV() string { a.rv++; return strconv.FormatUint(a.rv, 10) }

func (a *SimAPI) nextUID() types.UID {
	a.uidN++
	return types.UID(fmt.Sprintf("uid-%06d", a.uidN))
}

func (a *SimAPI) emit(typ string, res Resource, old, obj runtime.Object, actor, verb string) {
	ev := &APIEvent{Seq: a.rv, Type: typ, Res: res, Key: objKeyOf(obj), Obj: obj, Old: old, Actor: actor, Verb: verb,
		Time: a.sim.Now(), Step: a.sim.Steps, Stamp: a.sim.nextSeqLocked()}
	a.log[res] = append(a.log[res], ev)
	a.History = append(a.History, ev)
	a.sim.Tracef("  API %s %s %s rv=%d by %s (%s)", typ, res, ev.Key, ev.Seq, actor, verb)
	for _, l := range a.listeners {
		l(ev)
	}
}

// Get returns the authoritative object (do not mutate) or nil.
func (a *SimAPI) Peek(res Resource, ns, name string) runtime.Object {
	return a.objs[res][ns+"/"+name]
}

// List returns authoritative objects sorted by key (do not mutate).
func (a *SimAPI) ListRaw(res Resource) []runtime.Object {
	keys := make([]string, 0, len(a.objs[res]))
	for k := range a.objs[res] {
		keys = append(keys, k)
	}
	sort.Strings(keys)
	out := make([]runtime.Object, 0, len(keys))
	for _, k := range keys {
		out = append(out, a.objs[res][k])
	}
	return out
}

func (a *SimAPI) Get(res Resource, ns, name string) (runtime.Object, error) {
	o := a.objs[res][ns+"/"+name]
	if o == nil {
		return nil, apierrors.NewNotFound(groupResource(res), name)
	}
	return o.DeepCopyObject(), nil
}

func (a *SimAPI) Create(actor string, in runtime.Object) (runtime.Object, error) {
	res := resourceOf(in)
	obj := roundTrip(res, in)
	m := accessor(obj)
	if m.GetName() == "" {
		return nil, apierrors.NewBadRequest("name required")
	}
	if a.Admission != nil && res != ResPods {
		mutated, err := a.Admission(res, "CREATE", nil, obj)
		if err != nil {
			return nil, err
		}
		obj = roundTrip(res, mutated)
		m = accessor(obj)
	}
	key := objKeyOf(obj)
	if _, ok := a.objs[res][key]; ok {
		return nil, apierrors.NewAlreadyExists(groupResource(res), m.GetName())
	}
	for _, h := range a.preHooks {
		h(actor, "create", res, nil, obj)
	}
	m.SetUID(a.nextUID())
	m.SetResourceVersion(a.nextRV())
	m.SetCreationTimestamp(metav1.NewTime(a.sim.Now().Truncate(time.Second)))
	m.SetDeletionTimestamp(nil)
	m.SetGeneration(1)
	if hasStatusSubresource(res) {
		// status is ignored on create for resources with a status subresource.
		copyStatus(res, obj, newObject(res))
	}
	if p, ok := obj.(*corev1.Pod); ok {
		if p.Status.Phase == "" {
			p.Status.Phase = corev1.PodPending
		}
	}
	a.objs[res][key] = obj
	a.emit("ADDED", res, nil, obj, actor, "create")
	return obj.DeepCopyObject(), nil
}

func specEqual(x, y runtime.Object) bool {
	return reflect.DeepEqual(x, y)
}

// update implements Update (status=false) and UpdateStatus (status=true).
func (a *SimAPI) update(actor string, in runtime.Object, status bool) (runtime.Object, error) {
	res := resourceOf(in)
	in = roundTrip(res, in)
	im := accessor(in)
	key := objKeyOf(in)
	cur := a.objs[res][key]
	if cur == nil {
		return nil, apierrors.NewNotFound(groupResource(res), im.GetName())
	}
	cm := accessor(cur)
	if rv := im.GetResourceVersion(); rv != "" && rv != cm.GetResourceVersion() {
		return nil, apierrors.NewConflict(groupResource(res), im.GetName(),
			fmt.Errorf("the object has been modified; please apply your changes to the latest version and try again"))
	}
	if uid := im.GetUID(); uid != "" && uid != cm.GetUID() {
		return nil, apierrors.NewConflict(groupResource(res), im.GetName(), fmt.Errorf("uid mismatch"))
	}
	var obj runtime.Object
	verb := "update"
	if status {
		verb = "updateStatus"
		obj = cur.DeepCopyObject()
		copyStatus(res, obj, in)
	} else {
		obj = in
		if hasStatusSubresource(res) {
			copyStatus(res, obj, cur)
		}
		m := accessor(obj)
		m.SetUID(cm.GetUID())
		m.SetCreationTimestamp(cm.GetCreationTimestamp())
		m.SetDeletionTimestamp(cm.GetDeletionTimestamp())
		m.SetDeletionGracePeriodSeconds(cm.GetDeletionGracePeriodSeconds())
		m.SetGeneration(cm.GetGeneration())
		if a.Admission != nil && res != ResPods {
			m.SetResourceVersion(cm.GetResourceVersion())
			mutated, err := a.Admission(res, "UPDATE", cur.DeepCopyObject(), obj)
			if err != nil {
				return nil, err
			}
			obj = roundTrip(res, mutated)
			if hasStatusSubresource(res) {
				copyStatus(res, obj, cur)
			}
		}
	}
	m := accessor(obj)
	m.SetResourceVersion(cm.GetResourceVersion())
	if specEqual(cur, obj) {
		// no-op write: the API server does not persist or notify.
		return cur.DeepCopyObject(), nil
	}
	for _, h := range a.preHooks {
		h(actor, verb, res, cur, obj)
	}
	m.SetResourceVersion(a.nextRV())
	// finalizers: object is removed when it is being deleted and none is left.
	if m.GetDeletionTimestamp() != nil && len(m.GetFinalizers()) == 0 {
		delete(a.objs[res], key)
		a.emit("DELETED", res, cur, obj, actor, verb)
		return obj.DeepCopyObject(), nil
	}
	a.objs[res][key] = obj
	a.emit("MODIFIED", res, cur, obj, actor, verb)
	return obj.DeepCopyObject(), nil
}

func (a *SimAPI) Update(actor string, in runtime.Object) (runtime.Object, error) {
	return a.update(actor, in, false)
}
func (a *SimAPI) UpdateStatus(actor string, in runtime.Object) (runtime.Object, error) {
	return a.update(actor, in, true)
}

// Mutate applies fn to a copy of the current object and stores it
// unconditionally (used by environment actors that always act on the latest
// state: kubelet, GC). Returns false if the object does not exist.
func (a *SimAPI) Mutate(actor, verb string, res Resource, ns, name string, fn func(obj runtime.Object)) bool {
	key := ns + "/" + name
	cur := a.objs[res][key]
	if cur == nil {
		return false
	}
	obj := cur.DeepCopyObject()
	fn(obj)
	obj = roundTrip(res, obj)
	if specEqual(cur, obj) {
		return true
	}
	for _, h := range a.preHooks {
		h(actor, verb, res, cur, obj)
	}
	m := accessor(obj)
	m.SetResourceVersion(a.nextRV())
	if m.GetDeletionTimestamp() != nil && len(m.GetFinalizers()) == 0 && res != ResPods {
		delete(a.objs[res], key)
		a.emit("DELETED", res, cur, obj, actor, verb)
		return true
	}
	a.objs[res][key] = obj
	a.emit("MODIFIED", res, cur, obj, actor, verb)
	return true
}

// Remove deletes the object immediately regardless of finalizers (used by the
// kubelet for Pods and for force deletion).
func (a *SimAPI) Remove(actor, verb string, res Resource, ns, name string) bool {
	key := ns + "/" + name
	cur := a.objs[res][key]
	if cur == nil {
		return false
	}
	for _, h := range a.preHooks {
		h(actor, verb, res, cur, nil)
	}
	obj := cur.DeepCopyObject()
	accessor(obj).SetResourceVersion(a.nextRV())
	delete(a.objs[res], key)
	a.emit("DELETED", res, cur, obj, actor, verb)
	return true
}

// Delete implements the DELETE verb.
func (a *SimAPI) Delete(actor string, res Resource, ns, name string, opts metav1.DeleteOptions) error {
	key := ns + "/" + name
	cur := a.objs[res][key]
	if cur == nil {
		return apierrors.NewNotFound(groupResource(res), name)
	}
	cm := accessor(cur)
	if opts.Preconditions != nil && opts.Preconditions.UID != nil && *opts.Preconditions.UID != cm.GetUID() {
		return apierrors.NewConflict(groupResource(res), name, fmt.Errorf("uid precondition failed"))
	}
	now := a.sim.Now().Truncate(time.Second)
	if res == ResPods {
		pod := cur.(*corev1.Pod)
		grace := int64(30)
		if pod.Spec.TerminationGracePeriodSeconds != nil {
			grace = *pod.Spec.TerminationGracePeriodSeconds
		}
		if opts.GracePeriodSeconds != nil {
			grace = *opts.GracePeriodSeconds
		}
		terminal := pod.Status.Phase == corev1.PodSucceeded || pod.Status.Phase == corev1.PodFailed
		if grace == 0 || pod.Spec.NodeName == "" || terminal {
			a.Remove(actor, "delete", res, ns, name)
			return nil
		}
		// graceful deletion: kubelet has to confirm.
		if pod.DeletionTimestamp != nil {
			// already terminating: a shorter grace period may move the deadline up.
			newTS := metav1.NewTime(now.Add(time.Duration(grace) * time.Second))
			if !newTS.Before(pod.DeletionTimestamp) {
				return nil
			}
		}
		a.Mutate(actor, "delete", res, ns, name, func(o runtime.Object) {
			p := o.(*corev1.Pod)
			ts := metav1.NewTime(now.Add(time.Duration(grace) * time.Second))
			p.DeletionTimestamp = &ts
			p.DeletionGracePeriodSeconds = &grace
		})
		return nil
	}
	if len(cm.GetFinalizers()) > 0 {
		if cm.GetDeletionTimestamp() != nil {
			return nil
		}
		a.Mutate(actor, "delete", res, ns, name, func(o runtime.Object) {
			ts := metav1.NewTime(now)
			zero := int64(0)
			m := accessor(o)
			m.SetDeletionTimestamp(&ts)
			m.SetDeletionGracePeriodSeconds(&zero)
		})
		return nil
	}
	a.Remove(actor, "delete", res, ns, name)
	return nil
}
