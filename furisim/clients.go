package furisim

import (
	"context"
	"errors"
	"fmt"
	"time"

	corev1 "k8s.io/api/core/v1"
	apierrors "k8s.io/apimachinery/pkg/api/errors"
	metav1 "k8s.io/apimachinery/pkg/apis/meta/v1"
	"k8s.io/apimachinery/pkg/runtime"
	"k8s.io/client-go/kubernetes"
	typedcorev1 "k8s.io/client-go/kubernetes/typed/core/v1"

	execution "github.com/furiko-io/furiko/apis/execution/v1alpha1"
	furikoclient "github.com/furiko-io/furiko/pkg/generated/clientset/versioned"
	furikotyped "github.com/furiko-io/furiko/pkg/generated/clientset/versioned/typed/execution/v1alpha1"
)

var errProcDead = errors.New("furisim: process is dead (connection refused)")

// APICall describes one controller API call for monitors and fault plans.
type APICall struct {
	Proc   string
	Task   string
	Ctrl   string
	Verb   string
	Res    Resource
	NS     string
	Name   string
	N      int // ordinal of this call within the run (all processes)
	KindN  int // ordinal among calls of the same (ctrl,verb,res)
	Fault  string
	Err    error
	ReadRV map[string]string
	// SyncStart is when the acting worker was handed its current item.
	SyncStart time.Time
	// Grace is the grace period of a delete call (nil = default).
	Grace *int64
	// PreObj is the authoritative object just before the call took effect.
	PreObj runtime.Object
}

// apiCall is the API seam: request leg (park), fault decision, effect, response
// leg (park).
func (p *Proc) apiCall(verb string, res Resource, ns, name string, effect func(actor string) (runtime.Object, error)) (runtime.Object, error) {
	s := p.sim
	desc := fmt.Sprintf("%s %s %s/%s", verb, res, ns, name)
	t := s.curTask(p, p.name+" "+desc)
	if t == nil {
		// scheduler goroutine (should not happen for controller clients)
		return effect(p.name + "/sched")
	}
	if p.dead {
		return nil, errProcDead
	}
	if t.anon {
		// goroutines spawned by the code under test register in racy order: give each a
		// deterministic identity derived from what it is doing.
		s.mu.Lock()
		par := ""
		if s.lastReleased != nil {
			par = s.lastReleased.id
		}
		t.id = "anon:" + par + ":" + desc
		s.mu.Unlock()
	}
	s.park(t, "api.req", desc, true)
	if p.dead {
		return nil, errProcDead
	}
	call := &APICall{Proc: p.name, Task: t.id, Ctrl: t.ctrl(), Verb: verb, Res: res, NS: ns, Name: name, ReadRV: t.readSet, SyncStart: t.syncStart}
	call.PreObj = p.api.Peek(res, ns, name)
	if g, ok := s.pendingGrace[t]; ok {
		call.Grace = g
		delete(s.pendingGrace, t)
	}
	s.callN++
	call.N = s.callN
	kk := call.Ctrl + " " + verb + " " + string(res)
	s.callKindN[kk]++
	call.KindN = s.callKindN[kk]
	s.Stats["api."+kk]++
	fault := s.decideFault(p, call)
	call.Fault = fault
	s.curCall = call
	defer func() { s.curCall = nil }()
	switch fault {
	case "crash-before":
		p.crash("pinned crash before " + desc)
		return nil, errProcDead
	case "drop":
		s.Faults["api.drop"]++
		s.Tracef("  FAULT drop %s by %s", desc, t.id)
		call.Err = apierrors.NewInternalError(errors.New("furisim: injected server error"))
		s.notifyCall(call)
		return nil, call.Err
	case "unavailable":
		s.Faults["api.drop"]++
		s.Tracef("  FAULT unavailable %s by %s", desc, t.id)
		call.Err = apierrors.NewServiceUnavailable("furisim: injected unavailable")
		s.notifyCall(call)
		return nil, call.Err
	case "throttle":
		s.Faults["api.drop"]++
		s.Tracef("  FAULT throttle %s by %s", desc, t.id)
		call.Err = apierrors.NewTooManyRequests("furisim: injected throttle", 1)
		s.notifyCall(call)
		return nil, call.Err
	case "conflict":
		if verb == "update" || verb == "updateStatus" {
			s.Faults["api.conflict"]++
			s.Tracef("  FAULT conflict %s by %s", desc, t.id)
			call.Err = apierrors.NewConflict(groupResource(res), name, errors.New("furisim: injected conflict"))
			s.notifyCall(call)
			return nil, call.Err
		}
	}
	obj, err := effect(t.id)
	call.Err = err
	s.notifyCall(call)
	// the call has taken effect: writes of other actors that happen while the
	// response is in flight must not be attributed to it
	s.curCall = nil
	if err != nil {
		s.Stats["api.err."+string(apierrors.ReasonForError(err))]++
	}
	if fault == "crash-after" {
		p.crash("pinned crash after " + desc)
		return nil, errProcDead
	}
	s.park(t, "api.resp", desc, true)
	if p.dead {
		return nil, errProcDead
	}
	if fault == "lostack" && err == nil {
		s.Faults["api.lostack"]++
		s.Tracef("  FAULT lostack %s by %s", desc, t.id)
		// the effect was applied; what the caller sees varies (by call ordinal, so that
		// it replays): a gateway timeout, a 500, or a broken connection without any API status
		switch call.N % 3 {
		case 1:
			return nil, apierrors.NewInternalError(errors.New("furisim: injected server error after the write was applied"))
		case 2:
			return nil, errors.New("furisim: injected connection reset by peer after the write was applied")
		}
		return nil, apierrors.NewTimeoutError("furisim: injected timeout after the write was applied", 1)
	}
	if verb == "get" && (err == nil || apierrors.IsNotFound(err)) {
		// a live read is part of what the sync has seen, like a cache read
		if t.readSet == nil {
			t.readSet = map[string]string{}
		}
		rv := ""
		if err == nil && obj != nil {
			rv = accessor(obj).GetResourceVersion()
		}
		t.readSet[string(res)+"/"+ns+"/"+name] = rv
	}
	return obj, err
}

func (t *Task) ctrl() string {
	if t.ctrlName != "" {
		return t.ctrlName
	}
	return "anon"
}

// --- furiko clientset -------------------------------------------------------

type furikoClientset struct {
	furikoclient.Interface // nil
	proc                   *Proc
}

func (c *furikoClientset) ExecutionV1alpha1() furikotyped.ExecutionV1alpha1Interface {
	return &execClient{proc: c.proc}
}

type execClient struct {
	furikotyped.ExecutionV1alpha1Interface // nil
	proc                                   *Proc
}

func (c *execClient) Jobs(ns string) furikotyped.JobInterface {
	return &jobClient{proc: c.proc, ns: ns}
}
func (c *execClient) JobConfigs(ns string) furikotyped.JobConfigInterface {
	return &jobConfigClient{proc: c.proc, ns: ns}
}

type jobClient struct {
	furikotyped.JobInterface // nil
	proc                     *Proc
	ns                       string
}

func asJob(o runtime.Object, err error) (*execution.Job, error) {
	if err != nil || o == nil {
		return nil, err
	}
	return o.(*execution.Job), nil
}

func (c *jobClient) Create(ctx context.Context, job *execution.Job, opts metav1.CreateOptions) (*execution.Job, error) {
	in := job.DeepCopy()
	in.Namespace = c.ns
	return asJob(c.proc.apiCall("create", ResJobs, c.ns, job.Name, func(actor string) (runtime.Object, error) {
		return c.proc.api.Create(actor, in)
	}))
}
func (c *jobClient) Update(ctx context.Context, job *execution.Job, opts metav1.UpdateOptions) (*execution.Job, error) {
	in := job.DeepCopy()
	return asJob(c.proc.apiCall("update", ResJobs, c.ns, job.Name, func(actor string) (runtime.Object, error) {
		return c.proc.api.Update(actor, in)
	}))
}
func (c *jobClient) UpdateStatus(ctx context.Context, job *execution.Job, opts metav1.UpdateOptions) (*execution.Job, error) {
	in := job.DeepCopy()
	return asJob(c.proc.apiCall("updateStatus", ResJobs, c.ns, job.Name, func(actor string) (runtime.Object, error) {
		return c.proc.api.UpdateStatus(actor, in)
	}))
}
func (c *jobClient) Delete(ctx context.Context, name string, opts metav1.DeleteOptions) error {
	_, err := c.proc.apiCall("delete", ResJobs, c.ns, name, func(actor string) (runtime.Object, error) {
		return nil, c.proc.api.Delete(actor, ResJobs, c.ns, name, opts)
	})
	return err
}
func (c *jobClient) Get(ctx context.Context, name string, opts metav1.GetOptions) (*execution.Job, error) {
	return asJob(c.proc.apiCall("get", ResJobs, c.ns, name, func(actor string) (runtime.Object, error) {
		return c.proc.api.Get(ResJobs, c.ns, name)
	}))
}

type jobConfigClient struct {
	furikotyped.JobConfigInterface // nil
	proc                           *Proc
	ns                             string
}

func asJobConfig(o runtime.Object, err error) (*execution.JobConfig, error) {
	if err != nil || o == nil {
		return nil, err
	}
	return o.(*execution.JobConfig), nil
}

func (c *jobConfigClient) UpdateStatus(ctx context.Context, jc *execution.JobConfig, opts metav1.UpdateOptions) (*execution.JobConfig, error) {
	in := jc.DeepCopy()
	return asJobConfig(c.proc.apiCall("updateStatus", ResJobConfigs, c.ns, jc.Name, func(actor string) (runtime.Object, error) {
		return c.proc.api.UpdateStatus(actor, in)
	}))
}
func (c *jobConfigClient) Update(ctx context.Context, jc *execution.JobConfig, opts metav1.UpdateOptions) (*execution.JobConfig, error) {
	in := jc.DeepCopy()
	return asJobConfig(c.proc.apiCall("update", ResJobConfigs, c.ns, jc.Name, func(actor string) (runtime.Object, error) {
		return c.proc.api.Update(actor, in)
	}))
}
func (c *jobConfigClient) Get(ctx context.Context, name string, opts metav1.GetOptions) (*execution.JobConfig, error) {
	return asJobConfig(c.proc.apiCall("get", ResJobConfigs, c.ns, name, func(actor string) (runtime.Object, error) {
		return c.proc.api.Get(ResJobConfigs, c.ns, name)
	}))
}

// --- kubernetes clientset ---------------------------------------------------

type kubeClientset struct {
	kubernetes.Interface // nil
	proc                 *Proc
}

func (c *kubeClientset) CoreV1() typedcorev1.CoreV1Interface { return &coreClient{proc: c.proc} }

type coreClient struct {
	typedcorev1.CoreV1Interface // nil
	proc                        *Proc
}

func (c *coreClient) Pods(ns string) typedcorev1.PodInterface { return &podClient{proc: c.proc, ns: ns} }

type podClient struct {
	typedcorev1.PodInterface // nil
	proc                     *Proc
	ns                       string
}

func asPod(o runtime.Object, err error) (*corev1.Pod, error) {
	if err != nil || o == nil {
		return nil, err
	}
	return o.(*corev1.Pod), nil
}

func (c *podClient) Create(ctx context.Context, pod *corev1.Pod, opts metav1.CreateOptions) (*corev1.Pod, error) {
	in := pod.DeepCopy()
	in.Namespace = c.ns
	return asPod(c.proc.apiCall("create", ResPods, c.ns, pod.Name, func(actor string) (runtime.Object, error) {
		return c.proc.api.Create(actor, in)
	}))
}
func (c *podClient) Delete(ctx context.Context, name string, opts metav1.DeleteOptions) error {
	c.proc.sim.noteGrace(c.proc, opts.GracePeriodSeconds)
	_, err := c.proc.apiCall("delete", ResPods, c.ns, name, func(actor string) (runtime.Object, error) {
		return nil, c.proc.api.Delete(actor, ResPods, c.ns, name, opts)
	})
	return err
}
func (c *podClient) Get(ctx context.Context, name string, opts metav1.GetOptions) (*corev1.Pod, error) {
	return asPod(c.proc.apiCall("get", ResPods, c.ns, name, func(actor string) (runtime.Object, error) {
		return c.proc.api.Get(ResPods, c.ns, name)
	}))
}
