// Package furisim is a deterministic discrete-event simulator that runs the
// real furiko controllers inside one testing/synctest bubble. See
// /verif/DESIGN.md.
package furisim

import (
	"container/heap"
	"fmt"
	"math/rand"
	"runtime"
	"sort"
	"strconv"
	"strings"
	"sync"
	"testing/synctest"
	"time"
)

// ---------------------------------------------------------------------------
// goroutine identity

func goid() int64 {
	var buf [64]byte
	n := runtime.Stack(buf[:], false)
	// "goroutine 123 [running]:"
	s := string(buf[:n])
	s = strings.TrimPrefix(s, "goroutine ")
	i := strings.IndexByte(s, ' ')
	if i < 0 {
		panic("furisim: cannot parse goroutine id")
	}
	id, err := strconv.ParseInt(s[:i], 10, 64)
	if err != nil {
		panic(err)
	}
	return id
}

// ---------------------------------------------------------------------------
// choice stream

// Choices is the single source of scheduling nondeterminism. In generate mode
// it draws from the PRNG and records; in replay mode it reads back the
// recording (exhausted => 0).
type Choices struct {
	rng    *rand.Rand
	replay []int
	pos    int
	Rec    []int
}

func NewChoices(seed int64) *Choices {
	return &Choices{rng: rand.New(rand.NewSource(seed))}
}

func ReplayChoices(rec []int) *Choices {
	return &Choices{replay: append([]int{}, rec...)}
}

// draw returns a value in [0,n). gen is called in generate mode to produce the
// value (so that callers can use weighted distributions).
func (c *Choices) draw(n int, gen func(r *rand.Rand) int) int {
	if n <= 1 {
		return 0
	}
	var v int
	if c.rng != nil {
		v = gen(c.rng)
	} else {
		if c.pos < len(c.replay) {
			v = c.replay[c.pos]
		}
		c.pos++
	}
	if v < 0 {
		v = 0
	}
	v %= n
	c.Rec = append(c.Rec, v)
	return v
}

func (c *Choices) Uniform(n int) int {
	return c.draw(n, func(r *rand.Rand) int { return r.Intn(n) })
}

// Flag returns true with probability p (per mille) in generate mode; the
// recorded value 0 always means false.
func (c *Choices) Flag(permille int) bool {
	if permille <= 0 {
		return false
	}
	return c.draw(2, func(r *rand.Rand) int {
		if r.Intn(1000) < permille {
			return 1
		}
		return 0
	}) == 1
}

// ---------------------------------------------------------------------------
// timers

type simTimer struct {
	at       time.Time
	seq      uint64
	key      string
	fn       func()
	canceled bool
	index    int
}

type timerHeap []*simTimer

func (h timerHeap) Len() int { return len(h) }
func (h timerHeap) Less(i, j int) bool {
	if !h[i].at.Equal(h[j].at) {
		return h[i].at.Before(h[j].at)
	}
	return h[i].seq < h[j].seq
}
func (h timerHeap) Swap(i, j int) { h[i], h[j] = h[j], h[i]; h[i].index = i; h[j].index = j }
func (h *timerHeap) Push(x any)   { t := x.(*simTimer); t.index = len(*h); *h = append(*h, t) }
func (h *timerHeap) Pop() any {
	old := *h
	n := len(old)
	t := old[n-1]
	*h = old[:n-1]
	return t
}

// ---------------------------------------------------------------------------
// tasks

type resumeMsg struct {
	item     interface{}
	shutdown bool
}

// Task is one goroutine of the system under test, parked at a seam.
type Task struct {
	id       string
	proc     *Proc
	gid      int64
	parked   bool
	kind     string // seam kind where parked: "start","api.req","api.resp","read","store","queue.get"
	desc     string
	stamp    uint64
	resume   chan resumeMsg
	anon     bool
	enabled  bool // false for idle workers and held tasks
	readSet  map[string]string // resource/ns/name -> resourceVersion read during the current sync
	syncItem string
	ctrlName string
	syncStart time.Time
}

func (t *Task) String() string { return t.id }

// ---------------------------------------------------------------------------
// Sim

type Violation struct {
	Monitor string `json:"monitor"`
	Step    int    `json:"step"`
	Time    string `json:"time"`
	Msg     string `json:"msg"`
}

type Action struct {
	Kind   string
	Key    string
	Stamp  uint64
	Weight int
	Run    func()
}

type Sim struct {
	mu        sync.Mutex
	ch        *Choices
	schedGid  int64
	byGid     map[int64]*Task
	timers    timerHeap
	seq       uint64
	Steps     int
	StepCap   int
	Mode      string // "random", "fifo", "fair"
	FifoBias  int    // per mille probability of picking index 0 in "fifo" mode
	StallPm   int    // per mille weight of the stall action when work is enabled
	trace     []string
	traceCap  int
	TraceAll  bool
	Viol      []Violation
	stopped   bool
	sigHash   uint64
	Stats     map[string]int
	Faults    map[string]int
	actSrcs   []func(add func(Action))
	afterStep []func()
	Epoch     time.Time
	stateSet  map[uint64]struct{}
	StateFn   func() uint64
	FaultFn   func(p *Proc, c *APICall) string
	CallHook  func(c *APICall)
	callN     int
	callKindN map[string]int
	curCall   *APICall
	CapHit    bool
	Armed     map[string]bool
	APILatency time.Duration
	// Notes are rare, causally important events kept for the whole run (the trace is a ring buffer).
	Notes []string
	lastReleased *Task
	pendingGrace map[*Task]*int64
}

// noteGrace remembers the grace period of the delete call the current task is
// about to issue.
func (s *Sim) noteGrace(p *Proc, g *int64) {
	t := s.curTask(p, "delete")
	if t == nil {
		return
	}
	s.mu.Lock()
	if s.pendingGrace == nil {
		s.pendingGrace = map[*Task]*int64{}
	}
	s.pendingGrace[t] = g
	s.mu.Unlock()
}

func (s *Sim) decideFault(p *Proc, c *APICall) string {
	if s.FaultFn == nil {
		return ""
	}
	return s.FaultFn(p, c)
}

func (s *Sim) notifyCall(c *APICall) {
	if s.CallHook != nil {
		s.CallHook(c)
	}
}

func NewSim(ch *Choices) *Sim {
	return &Sim{
		ch:       ch,
		schedGid: goid(),
		byGid:    map[int64]*Task{},
		StepCap:  200000,
		Mode:     "random",
		FifoBias: 800,
		StallPm:  20,
		traceCap: 400,
		Stats:    map[string]int{},
		Faults:   map[string]int{},
		stateSet: map[uint64]struct{}{},
		callKindN: map[string]int{},
		sigHash:  1469598103934665603,
	}
}

func (s *Sim) Now() time.Time { return time.Now() }

func (s *Sim) nextSeq() uint64 { s.seq++; return s.seq }

// nextSeqLocked is nextSeq for callers that do not hold s.mu.
func (s *Sim) nextSeqLocked() uint64 { s.mu.Lock(); defer s.mu.Unlock(); s.seq++; return s.seq }

func (s *Sim) Tracef(format string, args ...interface{}) {
	line := fmt.Sprintf("%06d %s ", s.Steps, s.Now().UTC().Format("15:04:05.000")) + fmt.Sprintf(format, args...)
	if s.TraceAll || len(s.trace) < s.traceCap {
		s.trace = append(s.trace, line)
	} else {
		copy(s.trace, s.trace[1:])
		s.trace[len(s.trace)-1] = line
	}
}

func (s *Sim) Trace() []string { return s.trace }

func (s *Sim) sig(parts ...string) {
	for _, p := range parts {
		for i := 0; i < len(p); i++ {
			s.sigHash ^= uint64(p[i])
			s.sigHash *= 1099511628211
		}
		s.sigHash ^= 0xff
		s.sigHash *= 1099511628211
	}
}

func (s *Sim) Signature() uint64 { return s.sigHash }

// Violate records a violation and stops the run.
func (s *Sim) Violate(monitor, format string, args ...interface{}) {
	if s.Armed != nil {
		prop := monitor
		if i := strings.IndexByte(monitor, '/'); i >= 0 {
			prop = monitor[:i]
		}
		if !s.Armed[prop] {
			s.Stats["unarmed."+monitor]++
			return
		}
	}
	v := Violation{Monitor: monitor, Step: s.Steps, Time: s.Now().UTC().Format(time.RFC3339Nano), Msg: fmt.Sprintf(format, args...)}
	if len(s.Notes) > 0 {
		v.Msg += " | notes: " + strings.Join(s.Notes, "; ")
	}
	s.Viol = append(s.Viol, v)
	s.Tracef("VIOLATION %s: %s", monitor, v.Msg)
	s.stopped = true
}

func (s *Sim) Stopped() bool { return s.stopped }

// Note records a rare event that explains later violations.
func (s *Sim) Note(format string, args ...interface{}) {
	n := fmt.Sprintf(format, args...)
	s.Tracef("NOTE %s", n)
	for _, x := range s.Notes {
		if x == n {
			return
		}
	}
	if len(s.Notes) < 20 {
		s.Notes = append(s.Notes, n)
	}
}

// After registers a simulated timer.
func (s *Sim) After(d time.Duration, key string, fn func()) *simTimer {
	if d < 0 {
		d = 0
	}
	return s.At(s.Now().Add(d), key, fn)
}

func (s *Sim) At(at time.Time, key string, fn func()) *simTimer {
	s.mu.Lock()
	defer s.mu.Unlock()
	t := &simTimer{at: at, seq: s.nextSeq(), key: key, fn: fn}
	heap.Push(&s.timers, t)
	return t
}

func (s *Sim) Cancel(t *simTimer) {
	if t != nil {
		t.canceled = true
	}
}

// onScheduler reports whether the caller is the scheduler goroutine.
func (s *Sim) onScheduler() bool { return goid() == s.schedGid }

// curTask returns the task of the calling goroutine, creating an anonymous
// one (a goroutine spawned by the code under test) if unknown.
func (s *Sim) curTask(p *Proc, desc string) *Task {
	gid := goid()
	if gid == s.schedGid {
		return nil
	}
	s.mu.Lock()
	defer s.mu.Unlock()
	t := s.byGid[gid]
	if t == nil {
		t = &Task{id: "anon:" + desc, proc: p, gid: gid, resume: make(chan resumeMsg), anon: true}
		// goroutines spawned by a worker act on behalf of that worker's sync.
		if par := s.lastReleased; par != nil && par.proc == p {
			t.readSet = par.readSet
			t.syncStart = par.syncStart
			t.ctrlName = par.ctrlName
			t.id = "anon:" + par.id + ":" + desc
		}
		s.byGid[gid] = t
	}
	return t
}

func (s *Sim) lookupTask() *Task {
	gid := goid()
	s.mu.Lock()
	defer s.mu.Unlock()
	return s.byGid[gid]
}

// bind registers the calling goroutine under a fixed task id.
func (s *Sim) bind(p *Proc, id string) *Task {
	gid := goid()
	s.mu.Lock()
	defer s.mu.Unlock()
	t := s.byGid[gid]
	if t == nil {
		t = &Task{gid: gid, resume: make(chan resumeMsg)}
		s.byGid[gid] = t
	}
	t.id = id
	t.proc = p
	t.anon = false
	return t
}

func (s *Sim) unbind() {
	gid := goid()
	s.mu.Lock()
	delete(s.byGid, gid)
	s.mu.Unlock()
}

// park blocks the calling SUT goroutine until the scheduler resumes it.
func (s *Sim) park(t *Task, kind, desc string, enabled bool) resumeMsg {
	s.mu.Lock()
	t.parked = true
	t.kind = kind
	t.desc = desc
	t.enabled = enabled
	t.stamp = 0 // assigned by the scheduler in deterministic order (parkedTasks)
	s.mu.Unlock()
	msg := <-t.resume
	return msg
}

// release resumes a parked task and waits until the system is quiescent again.
func (s *Sim) release(t *Task, msg resumeMsg) {
	s.mu.Lock()
	t.parked = false
	if !t.anon {
		s.lastReleased = t
	}
	s.mu.Unlock()
	t.resume <- msg
	synctest.Wait()
}

// Go starts a SUT goroutine owned by the harness under the given task id. It
// parks before running fn so that the scheduler decides when it starts.
func (s *Sim) Go(p *Proc, id string, fn func()) {
	go func() {
		t := s.bind(p, id)
		defer s.unbind()
		s.park(t, "start", id, true)
		fn()
	}()
}

// Yield is a generic seam: the calling SUT goroutine parks and the scheduler
// decides when it continues. No-op on the scheduler goroutine.
func (s *Sim) Yield(p *Proc, kind, desc string) {
	t := s.curTask(p, kind+" "+desc)
	if t == nil {
		return
	}
	if p != nil && p.dead {
		return
	}
	s.park(t, kind, desc, true)
}

// AddActionSource registers a provider of enabled actions.
func (s *Sim) AddActionSource(f func(add func(Action))) { s.actSrcs = append(s.actSrcs, f) }
func (s *Sim) AddAfterStep(f func())                    { s.afterStep = append(s.afterStep, f) }

func (s *Sim) parkedTasks() []*Task {
	s.mu.Lock()
	defer s.mu.Unlock()
	out := make([]*Task, 0, len(s.byGid))
	for _, t := range s.byGid {
		if t.parked {
			out = append(out, t)
		}
	}
	sort.Slice(out, func(i, j int) bool {
		if out[i].id != out[j].id {
			return out[i].id < out[j].id
		}
		return out[i].stamp < out[j].stamp
	})
	// goroutines that parked since the last step did so in racy order: stamp them now,
	// on the scheduler goroutine, in id order.
	for _, t := range out {
		if t.stamp == 0 {
			t.stamp = s.nextSeq()
		}
	}
	return out
}

func kindPrio(k string) int {
	switch k {
	case "task":
		return 0
	case "dispatch":
		return 1
	case "notify":
		return 2
	case "cache":
		return 3
	case "timer":
		return 4
	case "stall":
		return 9
	}
	return 5
}

func (s *Sim) enabledActions() []Action {
	var acts []Action
	add := func(a Action) { acts = append(acts, a) }
	for _, t := range s.parkedTasks() {
		if !t.enabled {
			continue
		}
		t := t
		acts = append(acts, Action{Kind: "task", Key: t.id + " @" + t.kind + " " + t.desc, Stamp: t.stamp, Weight: 10, Run: func() {
			if t.kind == "api.resp" && s.APILatency > 0 {
				// every API round trip costs virtual time, so that event-driven
				// hot loops are bounded by time as they are in reality.
				time.Sleep(s.APILatency)
				synctest.Wait()
			}
			s.release(t, resumeMsg{})
		}})
	}
	for _, src := range s.actSrcs {
		src(add)
	}
	// due timers
	now := s.Now()
	s.mu.Lock()
	var due []*simTimer
	for _, t := range s.timers {
		if !t.canceled && !t.at.After(now) {
			due = append(due, t)
		}
	}
	s.mu.Unlock()
	sort.Slice(due, func(i, j int) bool {
		if !due[i].at.Equal(due[j].at) {
			return due[i].at.Before(due[j].at)
		}
		return due[i].seq < due[j].seq
	})
	for _, t := range due {
		t := t
		acts = append(acts, Action{Kind: "timer", Key: t.key, Stamp: t.seq, Weight: 10, Run: func() {
			s.fireTimer(t)
		}})
	}
	sort.SliceStable(acts, func(i, j int) bool {
		pi, pj := kindPrio(acts[i].Kind), kindPrio(acts[j].Kind)
		if pi != pj {
			return pi < pj
		}
		return false
	})
	return acts
}

func (s *Sim) fireTimer(t *simTimer) {
	s.mu.Lock()
	if t.index >= 0 && t.index < len(s.timers) && s.timers[t.index] == t {
		heap.Remove(&s.timers, t.index)
	}
	s.mu.Unlock()
	if t.canceled {
		return
	}
	t.canceled = true
	t.fn()
	synctest.Wait()
}

func (s *Sim) nextTimer() *simTimer {
	s.mu.Lock()
	defer s.mu.Unlock()
	for len(s.timers) > 0 {
		t := s.timers[0]
		if t.canceled {
			heap.Pop(&s.timers)
			continue
		}
		return t
	}
	return nil
}

func (s *Sim) sleepUntil(at time.Time) {
	d := at.Sub(s.Now())
	if d > 0 {
		time.Sleep(d)
		synctest.Wait()
	}
}

// Step executes one scheduler step. It returns false when nothing is enabled
// and no timer is pending before `horizon` (fixpoint), or the run stopped.
func (s *Sim) Step(horizon time.Time) bool {
	if s.stopped {
		return false
	}
	if s.Steps >= s.StepCap {
		s.Stats["step_cap_hit"]++
		s.CapHit = true
		s.stopped = true
		return false
	}
	synctest.Wait()
	for _, f := range s.afterStep {
		f()
		if s.stopped {
			return false
		}
	}
	acts := s.enabledActions()
	if len(acts) == 0 {
		nt := s.nextTimer()
		if nt == nil || nt.at.After(horizon) {
			return false
		}
		s.sleepUntil(nt.at)
		return true
	}
	s.Steps++
	var a Action
	switch s.Mode {
	case "fair":
		// oldest enabled first; consumes no choices.
		best := 0
		for i := range acts {
			if acts[i].Stamp < acts[best].Stamp {
				best = i
			}
		}
		a = acts[best]
	default:
		// optional stall: let time pass although work is enabled.
		if nt := s.nextTimer(); nt != nil && nt.at.After(s.Now()) && !nt.at.After(horizon) && s.ch.Flag(s.StallPm) {
			s.Stats["stall"]++
			s.Tracef("stall -> %s (%s)", nt.at.UTC().Format("15:04:05.000"), nt.key)
			s.sig("stall")
			s.sleepUntil(nt.at)
			return true
		}
		n := len(acts)
		idx := s.ch.draw(n, func(r *rand.Rand) int {
			if s.Mode == "fifo" && r.Intn(1000) < s.FifoBias {
				return 0
			}
			// weighted
			tot := 0
			for _, x := range acts {
				tot += x.Weight
			}
			v := r.Intn(tot)
			for i, x := range acts {
				if v < x.Weight {
					return i
				}
				v -= x.Weight
			}
			return 0
		})
		a = acts[idx]
	}
	s.Tracef("%s %s", a.Kind, a.Key)
	s.sig(a.Kind, a.Key)
	a.Run()
	if s.StateFn != nil {
		s.stateSet[s.StateFn()] = struct{}{}
	}
	return true
}

// RunUntil runs scheduler steps until virtual time `end` is reached.
func (s *Sim) RunUntil(end time.Time) {
	for !s.stopped && s.Now().Before(end) {
		if !s.Step(end) {
			if s.stopped {
				return
			}
			// idle with nothing before end: jump.
			s.sleepUntil(end)
			return
		}
	}
}

// Drain runs in fair mode until fixpoint: nothing enabled and no timer before
// now+quiet. Returns false if the step or time cap was hit.
func (s *Sim) Drain(quiet time.Duration, maxVirtual time.Duration, stepBudget int) bool {
	old := s.Mode
	s.Mode = "fair"
	defer func() { s.Mode = old }()
	start := s.Now()
	startSteps := s.Steps
	for !s.stopped {
		if s.Now().Sub(start) > maxVirtual || s.Steps-startSteps > stepBudget {
			return false
		}
		if !s.Step(s.Now().Add(quiet)) {
			return !s.stopped || len(s.Viol) > 0
		}
	}
	return true
}

func (s *Sim) DistinctStates() int { return len(s.stateSet) }
