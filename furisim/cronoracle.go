package furisim

import (
	"fmt"
	"strconv"
	"strings"
	"time"
)

// Independent cron evaluator used as the oracle for C01/C03/C04. It is written
// from the cron grammar documented for furiko (5/6/7 fields, lists, ranges,
// steps, names, H hashes) and shares no code with cronexpr. `H` items are
// treated as unknown constants: an expression is a family of concrete
// schedules indexed by the values of its hash items.

type fieldKind int

const (
	fSec fieldKind = iota
	fMin
	fHour
	fDom
	fMonth
	fDow
	fYear
)

var fieldMin = [...]int{0, 0, 0, 1, 1, 0, 1970}
var fieldMax = [...]int{59, 59, 23, 31, 12, 6, 2099}
var fieldHashMax = [...]int{59, 59, 23, 28, 12, 6, 2099}

var monthNames = map[string]int{"jan": 1, "feb": 2, "mar": 3, "apr": 4, "may": 5, "jun": 6, "jul": 7, "aug": 8, "sep": 9, "oct": 10, "nov": 11, "dec": 12}
var dowNames = map[string]int{"sun": 0, "mon": 1, "tue": 2, "wed": 3, "thu": 4, "fri": 5, "sat": 6}

// hashItem is one `H...` item: the concrete values are {base+off+k*step <= last}
// for an unknown off in [0,offN).
type hashItem struct {
	field      fieldKind
	first, last int
	step       int // 0: single value first+off
	offN       int
}

type cronItem struct {
	first, last, step int
}

type cronFieldSpec struct {
	star   bool
	items  []cronItem
	hashes []int // indexes into cronExprSpec.hashes
}

type cronExprSpec struct {
	fields [7]cronFieldSpec
	hashes []hashItem
}

func parseValue(k fieldKind, s string) (int, error) {
	s = strings.ToLower(s)
	if k == fMonth {
		if v, ok := monthNames[s]; ok {
			return v, nil
		}
	}
	if k == fDow {
		if v, ok := dowNames[s]; ok {
			return v, nil
		}
	}
	v, err := strconv.Atoi(s)
	if err != nil {
		return 0, fmt.Errorf("bad value %q", s)
	}
	if k == fDow && v == 7 {
		v = 0
	}
	return v, nil
}

func parseRange(k fieldKind, s string) (int, int, error) {
	i := strings.IndexByte(s, '-')
	if i < 0 {
		return 0, 0, fmt.Errorf("bad range %q", s)
	}
	a, err := parseValue(k, s[:i])
	if err != nil {
		return 0, 0, err
	}
	b, err := parseValue(k, s[i+1:])
	if err != nil {
		return 0, 0, err
	}
	return a, b, nil
}

// parseCronOracle parses one expression. hashSeconds: a missing seconds field
// is an H item instead of 0.
func parseCronOracle(expr string, hashSeconds bool) (*cronExprSpec, error) {
	toks := strings.Fields(expr)
	var f [7]string
	switch len(toks) {
	case 5:
		f = [7]string{"0", toks[0], toks[1], toks[2], toks[3], toks[4], "*"}
		if hashSeconds {
			f[0] = "H"
		}
	case 6:
		f = [7]string{"0", toks[0], toks[1], toks[2], toks[3], toks[4], toks[5]}
		if hashSeconds {
			f[0] = "H"
		}
	case 7:
		copy(f[:], toks)
	default:
		return nil, fmt.Errorf("unsupported field count %d", len(toks))
	}
	e := &cronExprSpec{}
	for k := fSec; k <= fYear; k++ {
		fs := &e.fields[k]
		for _, it := range strings.Split(f[k], ",") {
			lo := strings.ToLower(it)
			step := 0
			if i := strings.IndexByte(lo, '/'); i >= 0 {
				v, err := strconv.Atoi(lo[i+1:])
				if err != nil || v < 1 {
					return nil, fmt.Errorf("bad step in %q", it)
				}
				step = v
				lo = lo[:i]
			}
			switch {
			case lo == "*" && step == 0:
				fs.star = true
			case lo == "*":
				fs.items = append(fs.items, cronItem{fieldMin[k], fieldMax[k], step})
			case lo == "h":
				h := hashItem{field: k}
				if step == 0 {
					h.first, h.last, h.offN = fieldMin[k], fieldMin[k], fieldHashMax[k]-fieldMin[k]+1
				} else {
					h.first, h.last, h.step, h.offN = fieldMin[k], fieldMax[k], step, step
				}
				fs.hashes = append(fs.hashes, len(e.hashes))
				e.hashes = append(e.hashes, h)
			case strings.HasPrefix(lo, "h(") && strings.HasSuffix(lo, ")"):
				a, b, err := parseRange(k, lo[2:len(lo)-1])
				if err != nil {
					return nil, err
				}
				h := hashItem{field: k}
				if step == 0 {
					h.first, h.last, h.offN = a, a, b-a+1
				} else {
					h.first, h.last, h.step, h.offN = a, b, step, step
				}
				fs.hashes = append(fs.hashes, len(e.hashes))
				e.hashes = append(e.hashes, h)
			case strings.Contains(lo, "-"):
				a, b, err := parseRange(k, lo)
				if err != nil {
					return nil, err
				}
				if k == fDow && b == 0 && a > 0 {
					b = 6 // e.g. 5-7
				}
				st := step
				if st == 0 {
					st = 1
				}
				fs.items = append(fs.items, cronItem{a, b, st})
			default:
				v, err := parseValue(k, lo)
				if err != nil {
					return nil, err
				}
				if step == 0 {
					fs.items = append(fs.items, cronItem{v, v, 1})
				} else {
					fs.items = append(fs.items, cronItem{v, fieldMax[k], step})
				}
			}
		}
	}
	return e, nil
}

// concrete is an expression with all hash items resolved.
type concrete struct {
	sec, min  [60]bool
	hour      [24]bool
	dom       [32]bool
	month     [13]bool
	dow       [7]bool
	year      [2100]bool
	domStar   bool
	dowStar   bool
}

func (e *cronExprSpec) resolve(offs []int) *concrete {
	c := &concrete{}
	set := func(k fieldKind, v int) {
		if v < fieldMin[k] || v > fieldMax[k] {
			return
		}
		switch k {
		case fSec:
			c.sec[v] = true
		case fMin:
			c.min[v] = true
		case fHour:
			c.hour[v] = true
		case fDom:
			c.dom[v] = true
		case fMonth:
			c.month[v] = true
		case fDow:
			c.dow[v] = true
		case fYear:
			c.year[v] = true
		}
	}
	for k := fSec; k <= fYear; k++ {
		fs := &e.fields[k]
		if fs.star {
			for v := fieldMin[k]; v <= fieldMax[k]; v++ {
				set(k, v)
			}
			if k == fDom {
				c.domStar = true
			}
			if k == fDow {
				c.dowStar = true
			}
		}
		for _, it := range fs.items {
			for v := it.first; v <= it.last; v += it.step {
				set(k, v)
			}
		}
		for _, hi := range fs.hashes {
			h := e.hashes[hi]
			off := offs[hi]
			if h.step == 0 {
				set(k, h.first+off)
			} else {
				for v := h.first + off; v <= h.last; v += h.step {
					set(k, v)
				}
			}
		}
	}
	// a field consisting only of `*` items with other restricted items is still restricted;
	// star alone means unrestricted.
	if len(e.fields[fDom].items) > 0 || len(e.fields[fDom].hashes) > 0 {
		c.domStar = false
	}
	if len(e.fields[fDow].items) > 0 || len(e.fields[fDow].hashes) > 0 {
		c.dowStar = false
	}
	return c
}

func (c *concrete) dayMatches(y int, m time.Month, d int, wd time.Weekday) bool {
	if y < 1970 || y > 2099 || !c.year[y] || !c.month[int(m)] {
		return false
	}
	switch {
	case c.domStar && c.dowStar:
		return true
	case c.domStar:
		return c.dow[int(wd)]
	case c.dowStar:
		return c.dom[d]
	default:
		return c.dom[d] || c.dow[int(wd)]
	}
}

// matches reports whether the instant t (whole second) matches in loc.
func (c *concrete) matches(t time.Time, loc *time.Location) bool {
	if t.Nanosecond() != 0 {
		return false
	}
	t = t.In(loc)
	y, m, d := t.Date()
	return c.dayMatches(y, m, d, t.Weekday()) && c.hour[t.Hour()] && c.min[t.Minute()] && c.sec[t.Second()]
}

// next returns the earliest matching instant strictly after `after` and not
// after `limit`; zero time if none.
func (c *concrete) next(after time.Time, loc *time.Location, limit time.Time) time.Time {
	start := after.In(loc)
	y, m, d := start.Date()
	day := time.Date(y, m, d, 0, 0, 0, 0, loc)
	for i := 0; i < 366*8; i++ {
		if day.After(limit) {
			return time.Time{}
		}
		yy, mm, dd := day.Date()
		if c.dayMatches(yy, mm, dd, day.Weekday()) {
			for h := 0; h < 24; h++ {
				if !c.hour[h] {
					continue
				}
				for mi := 0; mi < 60; mi++ {
					if !c.min[mi] {
						continue
					}
					// quick reject whole minute
					endOfMin := time.Date(yy, mm, dd, h, mi, 59, 0, loc)
					if !endOfMin.After(after) {
						continue
					}
					for s := 0; s < 60; s++ {
						if !c.sec[s] {
							continue
						}
						cand := time.Date(yy, mm, dd, h, mi, s, 0, loc)
						if cand.Hour() != h || cand.Minute() != mi || cand.Day() != dd {
							continue // normalised away (DST gap)
						}
						if cand.After(after) {
							if cand.After(limit) {
								return time.Time{}
							}
							return cand
						}
					}
				}
			}
		}
		// next calendar day (robust against DST: go via noon)
		noon := time.Date(yy, mm, dd, 12, 0, 0, 0, loc).Add(24 * time.Hour)
		ny, nm, nd := noon.Date()
		day = time.Date(ny, nm, nd, 0, 0, 0, 0, loc)
	}
	return time.Time{}
}

// schedFamily is the oracle's view of one JobConfig schedule version: a set of
// expressions, each with unknown hash offsets, a location and a window.
type schedFamily struct {
	exprs     []*cronExprSpec
	loc       *time.Location
	notBefore *time.Time
	notAfter  *time.Time
	// candidates: each is one assignment of offsets for all expressions.
	cands [][]*concrete
	desc  string
	// base, if set, owns the candidate set (shared between versions of one
	// JobConfig that use the same expressions).
	base *schedFamily
}

func (f *schedFamily) candidates() [][]*concrete {
	if f.base != nil {
		return f.base.cands
	}
	return f.cands
}

func (f *schedFamily) setCandidates(c [][]*concrete) {
	if f.base != nil {
		f.base.cands = c
	} else {
		f.cands = c
	}
}

const maxCandidates = 5000

func newSchedFamily(exprs []string, hashSeconds bool, loc *time.Location, nb, na *time.Time) (*schedFamily, error) {
	f := &schedFamily{loc: loc, notBefore: nb, notAfter: na, desc: strings.Join(exprs, " | ")}
	total := 1
	for _, s := range exprs {
		e, err := parseCronOracle(s, hashSeconds)
		if err != nil {
			return nil, err
		}
		f.exprs = append(f.exprs, e)
		for _, h := range e.hashes {
			total *= h.offN
			if total > maxCandidates {
				return nil, fmt.Errorf("too many hash candidates")
			}
		}
	}
	// enumerate the product of all hash offsets
	var rec func(ei int, cur []*concrete)
	rec = func(ei int, cur []*concrete) {
		if ei == len(f.exprs) {
			f.cands = append(f.cands, append([]*concrete{}, cur...))
			return
		}
		e := f.exprs[ei]
		offs := make([]int, len(e.hashes))
		var rec2 func(hi int)
		rec2 = func(hi int) {
			if hi == len(e.hashes) {
				rec(ei+1, append(cur, e.resolve(offs)))
				return
			}
			for o := 0; o < e.hashes[hi].offN; o++ {
				offs[hi] = o
				rec2(hi + 1)
			}
		}
		rec2(0)
	}
	rec(0, nil)
	return f, nil
}

func (f *schedFamily) inWindow(t time.Time) bool {
	if f.notBefore != nil && t.Before(*f.notBefore) {
		return false
	}
	if f.notAfter != nil && t.After(*f.notAfter) {
		return false
	}
	return true
}

func candMatches(c []*concrete, t time.Time, loc *time.Location) bool {
	for _, e := range c {
		if e.matches(t, loc) {
			return true
		}
	}
	return false
}

func candNext(c []*concrete, after time.Time, loc *time.Location, limit time.Time) time.Time {
	var best time.Time
	for _, e := range c {
		n := e.next(after, loc, limit)
		if !n.IsZero() && (best.IsZero() || n.Before(best)) {
			best = n
		}
	}
	return best
}

// nextIn returns the first match of candidate c strictly after `after` inside
// the window and not after limit (zero if none).
func (f *schedFamily) nextIn(c []*concrete, after time.Time, limit time.Time) time.Time {
	if f.notBefore != nil && after.Before(f.notBefore.Add(-time.Nanosecond)) {
		after = f.notBefore.Add(-time.Nanosecond)
	}
	if f.notAfter != nil && limit.After(*f.notAfter) {
		limit = *f.notAfter
	}
	return candNext(c, after, f.loc, limit)
}

// filter keeps the candidates satisfying pred; returns false (and leaves the
// set unchanged) if none does.
func (f *schedFamily) filter(pred func(c []*concrete) bool) bool {
	var keep [][]*concrete
	for _, c := range f.candidates() {
		if pred(c) {
			keep = append(keep, c)
		}
	}
	if len(keep) == 0 {
		return false
	}
	f.setCandidates(keep)
	return true
}

func (f *schedFamily) any(pred func(c []*concrete) bool) bool {
	for _, c := range f.candidates() {
		if pred(c) {
			return true
		}
	}
	return false
}

// oracleLocation resolves a timezone string the way the documentation states:
// tz database names, "UTC"/"GMT", and UTC/GMT offsets (+h, +hh, +h:mm, +hh:mm, +hhmm).
func oracleLocation(tz string) (*time.Location, error) {
	if tz == "" || tz == "UTC" || tz == "GMT" {
		return time.UTC, nil
	}
	if strings.HasPrefix(tz, "UTC") || strings.HasPrefix(tz, "GMT") {
		off := tz[3:]
		if len(off) >= 2 && (off[0] == '+' || off[0] == '-') {
			sign := 1
			if off[0] == '-' {
				sign = -1
			}
			body := off[1:]
			var hh, mm int
			var err error
			switch {
			case strings.Contains(body, ":"):
				parts := strings.SplitN(body, ":", 2)
				hh, err = strconv.Atoi(parts[0])
				if err == nil {
					mm, err = strconv.Atoi(parts[1])
				}
			case len(body) == 4:
				hh, err = strconv.Atoi(body[:2])
				if err == nil {
					mm, err = strconv.Atoi(body[2:])
				}
			default:
				hh, err = strconv.Atoi(body)
			}
			if err == nil {
				return time.FixedZone(tz, sign*(hh*3600+mm*60)), nil
			}
		}
	}
	return time.LoadLocation(tz)
}
