module furisim

go 1.26.8

require github.com/furiko-io/furiko v0.0.0

require (
	github.com/go-logr/logr v1.2.0 // indirect
	github.com/gogo/protobuf v1.3.2 // indirect
	github.com/google/go-cmp v0.5.8 // indirect
	github.com/google/gofuzz v1.1.0 // indirect
	github.com/json-iterator/go v1.1.12 // indirect
	github.com/modern-go/concurrent v0.0.0-20180306012644-bacd9c7ef1dd // indirect
	github.com/modern-go/reflect2 v1.0.2 // indirect
	golang.org/x/net v0.0.0-20210825183410-e898025ed96a // indirect
	golang.org/x/text v0.3.7 // indirect
	gopkg.in/inf.v0 v0.9.1 // indirect
	gopkg.in/yaml.v2 v2.4.0 // indirect
	k8s.io/apimachinery v0.23.0 // indirect
	k8s.io/klog/v2 v2.30.0 // indirect
	k8s.io/utils v0.0.0-20210930125809-cb0fa318a74b // indirect
	sigs.k8s.io/json v0.0.0-20211020170558-c049b76a60c6 // indirect
	sigs.k8s.io/structured-merge-diff/v4 v4.2.0 // indirect
)

replace github.com/furiko-io/furiko => /repo
