package furisim

import (
	"fmt"
	"hash/fnv"
	"sort"
	"time"

	corev1 "k8s.io/api/core/v1"
	"k8s.io/apimachinery/pkg/api/meta"
	metav1 "k8s.io/apimachinery/pkg/apis/meta/v1"
	"k8s.io/apimachinery/pkg/runtime"
	k8sinformers "k8s.io/client-go/informers"
	k8score "k8s.io/client-go/informers/core"
	k8sinternal "k8s.io/client-go/informers/internalinterfaces"
	"k8s.io/client-go/tools/cache"

	execution "github.com/furiko-io/furiko/apis/execution/v1alpha1"
	furikoinformers "github.com/furiko-io/furiko/pkg/generated/informers/externalversions"
	furikoexec "github.com/furiko-io/furiko/pkg/generated/informers/externalversions/execution"
	furikointernal "github.com/furiko-io/furiko/pkg/generated/informers/externalversions/internalinterfaces"
)

// ---------------------------------------------------------------------------
// indexer

type simIndexer struct {
	inf   *simInformer
	items map[string]runtime.Object
}

var _ cache.Indexer = (*simIndexer)(nil)

func keyHash(k string, perm uint64) uint64 {
	h := fnv.New64a()
	h.Write([]byte(k))
	var b [8]byte
	for i := 0; i < 8; i++ {
		b[i] = byte(perm >> (8 * i))
	}
	h.Write(b[:])
	return h.Sum64()
}

func (x *simIndexer) sortedKeys() []string {
	keys := make([]string, 0, len(x.items))
	for k := range x.items {
		keys = append(keys, k)
	}
	perm := x.inf.proc.listPerm
	if perm == 0 {
		sort.Strings(keys)
	} else {
		sort.Slice(keys, func(i, j int) bool {
			hi, hj := keyHash(keys[i], perm), keyHash(keys[j], perm)
			if hi != hj {
				return hi < hj
			}
			return keys[i] < keys[j]
		})
	}
	return keys
}

func (x *simIndexer) key(obj interface{}) string {
	k, err := cache.DeletionHandlingMetaNamespaceKeyFunc(obj)
	if err != nil {
		panic(err)
	}
	return k
}

func (x *simIndexer) Add(obj interface{}) error    { x.items[x.key(obj)] = obj.(runtime.Object); return nil }
func (x *simIndexer) Update(obj interface{}) error { x.items[x.key(obj)] = obj.(runtime.Object); return nil }
func (x *simIndexer) Delete(obj interface{}) error { delete(x.items, x.key(obj)); return nil }
func (x *simIndexer) List() []interface{} {
	x.inf.onRead("list", "*")
	out := make([]interface{}, 0, len(x.items))
	for _, k := range x.sortedKeys() {
		out = append(out, x.items[k])
		x.inf.noteRead(k, x.items[k])
	}
	return out
}
func (x *simIndexer) ListKeys() []string { return x.sortedKeys() }
func (x *simIndexer) Get(obj interface{}) (interface{}, bool, error) {
	return x.GetByKey(x.key(obj))
}
func (x *simIndexer) GetByKey(key string) (interface{}, bool, error) {
	x.inf.onRead("get", key)
	o, ok := x.items[key]
	if !ok {
		x.inf.noteRead(key, nil)
		return nil, false, nil
	}
	x.inf.noteRead(key, o)
	return o, true, nil
}
func (x *simIndexer) Replace(list []interface{}, rv string) error {
	x.items = map[string]runtime.Object{}
	for _, o := range list {
		x.Add(o)
	}
	return nil
}
func (x *simIndexer) Resync() error { return nil }
func (x *simIndexer) Index(indexName string, obj interface{}) ([]interface{}, error) {
	if indexName != cache.NamespaceIndex {
		return nil, fmt.Errorf("index %q not supported", indexName)
	}
	m, err := meta.Accessor(obj)
	if err != nil {
		return nil, err
	}
	return x.ByIndex(indexName, m.GetNamespace())
}
func (x *simIndexer) IndexKeys(indexName, indexedValue string) ([]string, error) {
	var out []string
	for _, k := range x.sortedKeys() {
		if accessor(x.items[k]).GetNamespace() == indexedValue {
			out = append(out, k)
		}
	}
	return out, nil
}
func (x *simIndexer) ListIndexFuncValues(indexName string) []string { return nil }
func (x *simIndexer) ByIndex(indexName, indexedValue string) ([]interface{}, error) {
	if indexName != cache.NamespaceIndex {
		return nil, fmt.Errorf("index %q not supported", indexName)
	}
	x.inf.onRead("list", indexedValue+"/*")
	var out []interface{}
	for _, k := range x.sortedKeys() {
		if accessor(x.items[k]).GetNamespace() == indexedValue {
			out = append(out, x.items[k])
			x.inf.noteRead(k, x.items[k])
		}
	}
	return out, nil
}
func (x *simIndexer) GetIndexers() cache.Indexers {
	return cache.Indexers{cache.NamespaceIndex: cache.MetaNamespaceIndexFunc}
}
func (x *simIndexer) AddIndexers(newIndexers cache.Indexers) error { return nil }

// ---------------------------------------------------------------------------
// informer

type notification struct {
	typ      string // add, update, delete
	old, obj interface{}
	seq      uint64
}

type simListener struct {
	inf     *simInformer
	name    string
	handler cache.ResourceEventHandler
	queue   []notification
}

type simInformer struct {
	proc      *Proc
	res       Resource
	idx       *simIndexer
	started   bool
	synced    bool
	pos       int // next index of the API event log to consume
	listeners []*simListener
	broken    bool // watch lost: must relist before consuming more events
	nsync     int
}

var _ cache.SharedIndexInformer = (*simInformer)(nil)

func newSimInformer(p *Proc, res Resource) *simInformer {
	inf := &simInformer{proc: p, res: res}
	inf.idx = &simIndexer{inf: inf, items: map[string]runtime.Object{}}
	return inf
}

func (i *simInformer) onRead(kind, key string) {
	p := i.proc
	if i.res == ResJobConfigs && kind == "get" && p.w.onTickerRead != nil {
		if t := p.sim.lookupTask(); t != nil && t.ctrlName == "cron" && t.syncItem == "" {
			if !p.w.onTickerRead(p) {
				// livelock detected: park this goroutine for good.
				p.sim.park(t, "livelock", key, false)
			}
		}
	}
	if p.readYield {
		p.sim.Yield(p, "read", string(i.res)+" "+kind+" "+key)
	}
}

func (i *simInformer) noteRead(key string, obj runtime.Object) {
	t := i.proc.sim.lookupTask()
	if t == nil {
		return
	}
	if t.readSet == nil {
		t.readSet = map[string]string{}
	}
	rv := ""
	if obj != nil {
		rv = accessor(obj).GetResourceVersion()
	}
	t.readSet[string(i.res)+"/"+key] = rv
}

func (i *simInformer) AddEventHandler(handler cache.ResourceEventHandler) {
	i.AddEventHandlerWithResyncPeriod(handler, 0)
}

func (i *simInformer) AddEventHandlerWithResyncPeriod(handler cache.ResourceEventHandler, _ time.Duration) {
	l := &simListener{inf: i, handler: handler, name: fmt.Sprintf("%s/%s/l%d", i.proc.name, i.res, len(i.listeners))}
	if i.started {
		// late registration: replay synthetic adds from the current cache.
		for _, k := range i.idx.sortedKeys() {
			l.queue = append(l.queue, notification{typ: "add", obj: i.idx.items[k], seq: i.proc.sim.nextSeqLocked()})
		}
	}
	i.listeners = append(i.listeners, l)
}

func (i *simInformer) GetStore() cache.Store           { return i.idx }
func (i *simInformer) GetController() cache.Controller { return nil }
func (i *simInformer) Run(stopCh <-chan struct{})      { i.started = true }
func (i *simInformer) HasSynced() bool                 { return i.synced }
func (i *simInformer) LastSyncResourceVersion() string { return "" }
func (i *simInformer) SetWatchErrorHandler(handler cache.WatchErrorHandler) error {
	return nil
}
func (i *simInformer) AddIndexers(indexers cache.Indexers) error { return nil }
func (i *simInformer) GetIndexer() cache.Indexer                  { return i.idx }

func (i *simInformer) cacheChanged(key string, obj runtime.Object) {
	for _, f := range i.proc.w.onCacheChange {
		f(i.proc, i.res, key, obj)
	}
}

func (i *simInformer) distribute(n notification) {
	for _, l := range i.listeners {
		nn := n
		nn.seq = i.proc.sim.nextSeqLocked()
		l.queue = append(l.queue, nn)
	}
}

// initialSync lists the current authoritative state into the cache.
func (i *simInformer) initialSync() {
	api := i.proc.api
	i.pos = api.LogLen(i.res)
	for _, o := range api.ListRaw(i.res) {
		i.idx.Add(o)
		i.cacheChanged(objKeyOf(o), o)
		i.distribute(notification{typ: "add", obj: o})
	}
	i.synced = true
	i.nsync++
}

// relist models a lost watch: the cache is replaced by the current state and
// only the differences are delivered (intermediate versions are skipped,
// deletions arrive as tombstones).
func (i *simInformer) relist() {
	api := i.proc.api
	i.pos = api.LogLen(i.res)
	cur := map[string]runtime.Object{}
	for _, o := range api.ListRaw(i.res) {
		cur[objKeyOf(o)] = o
	}
	for _, k := range i.idx.sortedKeys() {
		old := i.idx.items[k]
		if _, ok := cur[k]; !ok {
			delete(i.idx.items, k)
			i.cacheChanged(k, nil)
			i.distribute(notification{typ: "delete", obj: cache.DeletedFinalStateUnknown{Key: k, Obj: old}})
		}
	}
	keys := make([]string, 0, len(cur))
	for k := range cur {
		keys = append(keys, k)
	}
	sort.Strings(keys)
	for _, k := range keys {
		o := cur[k]
		old, ok := i.idx.items[k]
		if !ok {
			i.idx.items[k] = o
			i.cacheChanged(k, o)
			i.distribute(notification{typ: "add", obj: o})
		} else if accessor(old).GetResourceVersion() != accessor(o).GetResourceVersion() {
			i.idx.items[k] = o
			i.cacheChanged(k, o)
			i.distribute(notification{typ: "update", old: old, obj: o})
		}
	}
	i.broken = false
	i.proc.sim.Faults["watch.relist"]++
}

// advance consumes one event of the API log into the cache.
func (i *simInformer) advance() {
	api := i.proc.api
	ev := api.LogAt(i.res, i.pos)
	i.pos++
	switch ev.Type {
	case "ADDED":
		i.idx.items[ev.Key] = ev.Obj
		i.cacheChanged(ev.Key, ev.Obj)
		i.distribute(notification{typ: "add", obj: ev.Obj})
	case "MODIFIED":
		old, ok := i.idx.items[ev.Key]
		i.idx.items[ev.Key] = ev.Obj
		i.cacheChanged(ev.Key, ev.Obj)
		if ok {
			i.distribute(notification{typ: "update", old: old, obj: ev.Obj})
		} else {
			i.distribute(notification{typ: "add", obj: ev.Obj})
		}
	case "DELETED":
		if _, ok := i.idx.items[ev.Key]; ok {
			delete(i.idx.items, ev.Key)
			i.cacheChanged(ev.Key, nil)
			i.distribute(notification{typ: "delete", obj: ev.Obj})
		}
	}
}

// resync re-delivers every cached object as Update(old==new).
func (i *simInformer) resync() {
	for _, k := range i.idx.sortedKeys() {
		o := i.idx.items[k]
		i.distribute(notification{typ: "update", old: o, obj: o})
	}
	i.proc.sim.Faults["watch.resync"]++
}

func (l *simListener) deliver() {
	n := l.queue[0]
	l.queue = l.queue[1:]
	for _, f := range l.inf.proc.w.onDeliver {
		f(l, n)
	}
	switch n.typ {
	case "add":
		l.handler.OnAdd(n.obj)
	case "update":
		l.handler.OnUpdate(n.old, n.obj)
	case "delete":
		l.handler.OnDelete(n.obj)
	}
}

// actions lists the enabled informer actions of this process.
func (p *Proc) informerActions(add func(Action)) {
	if p.dead {
		return
	}
	for _, res := range allResources {
		i := p.informers[res]
		if i == nil || !i.started {
			continue
		}
		_ = i
		switch {
		case !i.synced:
			add(Action{Kind: "cache", Key: p.name + "/" + string(res) + " initial-sync", Stamp: p.startStamp, Weight: 10, Run: func() { i.initialSync() }})
		case i.broken:
			add(Action{Kind: "cache", Key: p.name + "/" + string(res) + " relist", Stamp: p.startStamp, Weight: 10, Run: func() { i.relist() }})
		case i.pos < p.api.LogLen(res) && !p.cacheHeld(res):
			ev := p.api.LogAt(res, i.pos)
			add(Action{Kind: "cache", Key: fmt.Sprintf("%s/%s advance %s %s", p.name, res, ev.Type, ev.Key), Stamp: ev.Stamp, Weight: p.cacheWeight, Run: func() { i.advance() }})
		}
		for _, l := range i.listeners {
			if len(l.queue) > 0 {
				l := l
				n := l.queue[0]
				add(Action{Kind: "notify", Key: fmt.Sprintf("%s %s", l.name, n.typ), Stamp: n.seq, Weight: p.notifyWeight, Run: func() { l.deliver() }})
			}
		}
	}
}

// ---------------------------------------------------------------------------
// factories

type furikoFactory struct {
	furikoinformers.SharedInformerFactory // nil: anything not overridden panics
	proc                                  *Proc
}

func (f *furikoFactory) Start(stopCh <-chan struct{}) { f.proc.startInformers() }
func (f *furikoFactory) InformerFor(obj runtime.Object, _ furikointernal.NewInformerFunc) cache.SharedIndexInformer {
	return f.proc.informerFor(resourceOf(obj))
}
func (f *furikoFactory) Execution() furikoexec.Interface { return furikoexec.New(f, metav1.NamespaceAll, nil) }

type kubeFactory struct {
	k8sinformers.SharedInformerFactory // nil
	proc                               *Proc
}

func (f *kubeFactory) Start(stopCh <-chan struct{}) { f.proc.startInformers() }
func (f *kubeFactory) InformerFor(obj runtime.Object, _ k8sinternal.NewInformerFunc) cache.SharedIndexInformer {
	return f.proc.informerFor(resourceOf(obj))
}
func (f *kubeFactory) Core() k8score.Interface { return k8score.New(f, metav1.NamespaceAll, nil) }

var _ = corev1.Pod{}
var _ = execution.Job{}
