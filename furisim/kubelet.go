package furisim

import (
	"fmt"
	"time"

	corev1 "k8s.io/api/core/v1"
	metav1 "k8s.io/apimachinery/pkg/apis/meta/v1"
	"k8s.io/apimachinery/pkg/runtime"
)

// PodTruth is the ground truth about one Pod as produced by the simulated
// kubelet and API server (not what any controller believes).
type PodTruth struct {
	Key      string
	UID      string
	JobUID   string
	Created  time.Time
	Running  *time.Time
	Finished *time.Time
	Outcome  string // succeed, fail, oom, deadline ("" = never finished)
	Gone     *time.Time
	GoneBy   string
	DelReq   *time.Time // deletionTimestamp first requested at
	DelBy    string     // who requested the deletion
	Script   PodScript
}

// Alive reports whether the Pod exists and is not terminal.
func (t *PodTruth) Alive() bool { return t.Gone == nil && t.Finished == nil }

type Kubelet struct {
	w     *World
	Pods  map[string]*PodTruth // by ns/name, latest incarnation
	ByUID map[string]*PodTruth
}

func (w *World) startKubelet() {
	k := &Kubelet{w: w, Pods: map[string]*PodTruth{}, ByUID: map[string]*PodTruth{}}
	w.Kubelet = k
	w.API.Listen(func(ev *APIEvent) {
		if ev.Res != ResPods {
			return
		}
		pod := ev.Obj.(*corev1.Pod)
		switch ev.Type {
		case "ADDED":
			k.onAdded(pod)
		case "MODIFIED":
			old := ev.Old.(*corev1.Pod)
			if old.DeletionTimestamp == nil && pod.DeletionTimestamp != nil {
				if t := k.ByUID[string(pod.UID)]; t != nil && t.DelBy == "" {
					t.DelBy = ev.Actor
				}
				k.onDeleting(pod)
			}
		case "DELETED":
			if t := k.ByUID[string(pod.UID)]; t != nil && t.Gone == nil {
				now := w.Sim.Now()
				t.Gone = &now
				t.GoneBy = ev.Actor
			}
		}
	})
}

func (k *Kubelet) scriptFor(pod *corev1.Pod) PodScript {
	if s, ok := k.w.Plan.PodOverride[pod.Name]; ok {
		return s
	}
	if len(pod.Name) > 4 && pod.Name[:4] == "sat-" {
		// saturation phase: long-running tasks that terminate promptly when deleted
		return PodScript{ScheduleMs: 100, RunMs: 200, FinishMs: -1, Outcome: "succeed", TermMs: 300}
	}
	list := k.w.Plan.PodScripts
	if len(list) == 0 {
		return PodScript{ScheduleMs: 100, RunMs: 500, FinishMs: 3000, Outcome: "succeed", TermMs: 500}
	}
	return list[hashStr(pod.Namespace+"/"+pod.Name)%uint64(len(list))]
}

func (k *Kubelet) mutate(t *PodTruth, verb string, fn func(p *corev1.Pod)) bool {
	ns, name := splitKey(t.Key)
	cur := k.w.API.Peek(ResPods, ns, name)
	if cur == nil || string(accessor(cur).GetUID()) != t.UID {
		return false
	}
	return k.w.API.Mutate("kubelet", verb, ResPods, ns, name, func(o runtime.Object) { fn(o.(*corev1.Pod)) })
}

func splitKey(key string) (string, string) {
	for i := 0; i < len(key); i++ {
		if key[i] == '/' {
			return key[:i], key[i+1:]
		}
	}
	return "", key
}

func ms(v int64) time.Duration { return time.Duration(v) * time.Millisecond }

func (k *Kubelet) onAdded(pod *corev1.Pod) {
	s := k.w.Sim
	sc := k.scriptFor(pod)
	t := &PodTruth{Key: pod.Namespace + "/" + pod.Name, UID: string(pod.UID), Created: s.Now(), Script: sc}
	if ref := metav1.GetControllerOf(pod); ref != nil {
		t.JobUID = string(ref.UID)
	}
	k.Pods[t.Key] = t
	k.ByUID[t.UID] = t
	if pod.Spec.NodeName != "" {
		// pre-scheduled foreign pod: leave alone.
		return
	}
	tag := "kubelet " + t.Key
	if sc.EvictMs > 0 {
		s.After(ms(sc.EvictMs), tag+" evict", func() {
			ns, name := splitKey(t.Key)
			cur := k.w.API.Peek(ResPods, ns, name)
			if cur != nil && string(accessor(cur).GetUID()) == t.UID {
				s.Faults["kubelet.evict"]++
				k.w.API.Remove("kubelet-evict", "delete", ResPods, ns, name)
			}
		})
	}
	if sc.ScheduleMs < 0 {
		s.Faults["kubelet.never_scheduled"]++
		return
	}
	s.After(ms(sc.ScheduleMs), tag+" schedule", func() {
		ok := k.mutate(t, "schedule", func(p *corev1.Pod) {
			p.Spec.NodeName = "node1"
			now := metav1.NewTime(s.Now())
			p.Status.StartTime = &now
			p.Status.Conditions = append(p.Status.Conditions, corev1.PodCondition{Type: corev1.PodScheduled, Status: corev1.ConditionTrue})
		})
		if !ok || sc.RunMs < 0 {
			if ok {
				s.Faults["kubelet.never_runs"]++
			}
			return
		}
		s.After(ms(sc.RunMs), tag+" run", func() {
			started := metav1.NewTime(s.Now())
			ok := k.mutate(t, "run", func(p *corev1.Pod) {
				if p.DeletionTimestamp != nil && sc.TermMs >= 0 && sc.TermMs < 30000 {
					return // a responsive kubelet does not start a Pod that is being deleted
				}
				p.Status.Phase = corev1.PodRunning
				p.Status.ContainerStatuses = []corev1.ContainerStatus{{Name: "c", ContainerID: "cri://" + t.UID,
					State: corev1.ContainerState{Running: &corev1.ContainerStateRunning{StartedAt: started}}}}
			})
			if !ok {
				return
			}
			if cur := k.w.API.Peek(ResPods, pod.Namespace, pod.Name); cur == nil || cur.(*corev1.Pod).Status.Phase != corev1.PodRunning {
				return
			}
			now := s.Now()
			t.Running = &now
			if sc.Flap && sc.FinishMs > 400 {
				s.After(ms(sc.FinishMs/3), tag+" flap-off", func() {
					s.Faults["kubelet.flap"]++
					k.mutate(t, "flap", func(p *corev1.Pod) {
						if p.Status.Phase == corev1.PodRunning {
							p.Status.ContainerStatuses = nil
						}
					})
				})
				s.After(ms(2*sc.FinishMs/3), tag+" flap-on", func() {
					k.mutate(t, "flap", func(p *corev1.Pod) {
						if p.Status.Phase == corev1.PodRunning && p.Status.ContainerStatuses == nil {
							p.Status.ContainerStatuses = []corev1.ContainerStatus{{Name: "c", ContainerID: "cri://" + t.UID,
								State: corev1.ContainerState{Running: &corev1.ContainerStateRunning{StartedAt: started}}}}
						}
					})
				})
			}
			if sc.FinishMs < 0 {
				s.Faults["kubelet.never_finishes"]++
				return
			}
			s.After(ms(sc.FinishMs), tag+" finish "+sc.Outcome, func() {
				fin := metav1.NewTime(s.Now())
				done := false
				k.mutate(t, "finish", func(p *corev1.Pod) {
					if p.Status.Phase != corev1.PodRunning {
						return
					}
					done = true
					term := &corev1.ContainerStateTerminated{StartedAt: started, FinishedAt: fin}
					switch sc.Outcome {
					case "succeed":
						p.Status.Phase = corev1.PodSucceeded
						term.ExitCode = 0
						term.Reason = "Completed"
					case "oom":
						p.Status.Phase = corev1.PodFailed
						term.ExitCode = 137
						term.Reason = "OOMKilled"
					case "deadline":
						p.Status.Phase = corev1.PodFailed
						p.Status.Reason = "DeadlineExceeded"
						p.Status.Message = "Pod was active on the node longer than the specified deadline"
						p.Status.ContainerStatuses = nil
						term = nil
					default:
						p.Status.Phase = corev1.PodFailed
						term.ExitCode = 1
						term.Reason = "Error"
					}
					if term != nil {
						p.Status.ContainerStatuses = []corev1.ContainerStatus{{Name: "c", ContainerID: "cri://" + t.UID,
							State: corev1.ContainerState{Terminated: term}}}
					}
				})
				if done {
					now := s.Now()
					t.Finished = &now
					t.Outcome = sc.Outcome
					s.Stats["kubelet.finish."+sc.Outcome]++
					// a terminal pod with a deletionTimestamp is removed by the kubelet.
					if cur := k.w.API.Peek(ResPods, pod.Namespace, pod.Name); cur != nil && cur.(*corev1.Pod).DeletionTimestamp != nil {
						k.w.API.Remove("kubelet", "terminated", ResPods, pod.Namespace, pod.Name)
					}
				}
			})
		})
	})
}

func (k *Kubelet) onDeleting(pod *corev1.Pod) {
	s := k.w.Sim
	t := k.ByUID[string(pod.UID)]
	if t == nil {
		return
	}
	if t.DelReq == nil {
		now := s.Now()
		t.DelReq = &now
	}
	sc := t.Script
	if sc.TermMs < 0 {
		s.Faults["kubelet.never_terminates"]++
		return
	}
	if sc.TermMs > 5000 {
		s.Faults["kubelet.late_terminate"]++
	}
	s.After(ms(sc.TermMs), fmt.Sprintf("kubelet %s terminate", t.Key), func() {
		ns, name := splitKey(t.Key)
		cur := k.w.API.Peek(ResPods, ns, name)
		if cur != nil && string(accessor(cur).GetUID()) == t.UID {
			k.w.API.Remove("kubelet", "terminated", ResPods, ns, name)
		}
	})
}
