package furisim

import (
	"runtime/pprof"
	"bufio"
	"encoding/json"
	"fmt"
	"hash/fnv"
	"os"
	"path/filepath"
	"strconv"
	"strings"
	"testing"
	"time"
)

// Replay is the on-disk form of one failing (or sampled) run.
type Replay struct {
	Property  string     `json:"property"`
	Violation *Violation `json:"violation,omitempty"`
	Seed      int64      `json:"seed"`
	Plan      *Plan      `json:"plan"`
	Choices   []int      `json:"choices"`
	Trace     []string   `json:"trace,omitempty"`
	RepoRev   string     `json:"repo_rev,omitempty"`
}

func envInt(name string, def int64) int64 {
	if v := os.Getenv(name); v != "" {
		n, err := strconv.ParseInt(v, 10, 64)
		if err == nil {
			return n
		}
	}
	return def
}

func deriveSeed(base int64, property, variant string, i int64) int64 {
	h := fnv.New64a()
	fmt.Fprintf(h, "%d|%s|%s|%d", base, property, variant, i)
	return int64(h.Sum64() >> 1)
}

// presetFor maps a property and variant to the preset that decides it.
func presetFor(property, variant string) string {
	if variant == "sweep" {
		return "full"
	}
	if variant != "" {
		return variant
	}
	switch property {
	case "C01", "C03", "C04":
		return "cron-tick"
	case "C02", "C05", "C06", "C07", "C08", "C09", "C10", "C11", "C12", "C13", "C15", "C20":
		return "full"
	case "C19":
		return "config"
	}
	return ""
}

var hangCh = make(chan string, 1)

func watchdog(label string, d time.Duration) func() {
	done := make(chan struct{})
	go func() {
		select {
		case <-done:
		case <-time.After(d):
			fmt.Printf("HANG %s\n", label)
			// leave a goroutine dump next to the results for diagnosis
			if dir := os.Getenv("VERIF_OUT"); dir != "" {
				if f, err := os.Create(filepath.Join(dir, fmt.Sprintf("hang-%d.txt", time.Now().UnixNano()))); err == nil {
					fmt.Fprintf(f, "HANG %s\n", label)
					pprof.Lookup("goroutine").WriteTo(f, 2)
					f.Close()
				}
			}
			os.Exit(3)
		}
	}()
	return func() { close(done) }
}

// TestSim is the single entry point; behaviour is selected by VERIF_MODE.
func TestSim(t *testing.T) {
	mode := os.Getenv("VERIF_MODE")
	switch mode {
	case "":
		t.Skip("VERIF_MODE not set")
	case "gen":
		property := os.Getenv("VERIF_PROPERTY")
		preset := presetFor(property, os.Getenv("VERIF_PRESET"))
		seed := envInt("VERIF_RUNSEED", 1)
		plan := presets[preset].generate(seed, property)
		b, _ := json.MarshalIndent(plan, "", " ")
		fmt.Println(string(b))
	case "campaign":
		runCampaign(t)
	case "replay":
		runReplay(t)
	default:
		t.Fatalf("unknown VERIF_MODE %q", mode)
	}
}

// genSweepPilot derives a small fault-free plan whose API calls are then
// enumerated as single fault points.
func genSweepPilot(seed int64, property string) *Plan {
	p := genFull(seed, property)
	p.Faults, p.Pinned, p.Crashes, p.Lags, p.Relists = nil, nil, nil, nil, nil
	p.Sched = SchedOpts{Mode: "fair", APILatencyUs: p.Sched.APILatencyUs}
	p.Proc.ReadYield = false
	p.Proc.ResyncSec = 0
	p.Saturate = false
	// at most three Jobs, no kills/deletes: the sweep is about create/record/adopt
	var ops []UserOp
	n := 0
	for _, op := range p.Ops {
		if op.Kind == "createJob" && n < 3 {
			ops = append(ops, op)
			n++
		}
	}
	p.Ops = ops
	if len(p.JobConfigs) > 1 {
		p.JobConfigs = p.JobConfigs[:1]
	}
	for i := range p.JobConfigs {
		p.JobConfigs[i].Cron = nil
		p.JobConfigs[i].NoSchedule = true
	}
	if p.DurationSec > 90 {
		p.DurationSec = 90
	}
	return p
}

var sweepKinds = []string{"drop", "lostack", "crash-before", "crash-after"}

// runSweep: for every pilot plan, every API call of its fault-free execution is
// hit by exactly one fault of every kind (complete single-fault enumeration).
func runSweep(t *testing.T, property string, base, from, to, stride int64, budget time.Duration, outDir string, emit func(line map[string]interface{})) {
	start := time.Now()
	for i := from; i < to; i += stride {
		if budget > 0 && time.Since(start) > budget {
			break
		}
		seed := deriveSeed(base, property, "sweep", i)
		pilot := genSweepPilot(seed, property)
		stop := watchdog(fmt.Sprintf("sweep pilot property=%s runseed=%d", property, seed), 120*time.Second)
		pres := RunPlan(t, pilot, NewChoices(1), false)
		stop()
		n := pres.APICalls
		pres.Stats["sweep.pilot_calls"] = n
		emit(map[string]interface{}{"i": i, "res": pres, "wallMs": 0, "sweep": "pilot", "plan": pilot})
		if len(pres.Violations) > 0 || pres.HarnessErr != "" {
			continue
		}
		complete := true
		for k := 1; k <= n; k++ {
			for _, kind := range sweepKinds {
				if budget > 0 && time.Since(start) > budget*3 {
					complete = false
					break
				}
				plan := *pilot
				plan.Pinned = []PinnedFault{{N: k, Fault: kind, RestartMs: int64(500 + 1500*(k%3))}}
				stop := watchdog(fmt.Sprintf("sweep property=%s runseed=%d call=%d kind=%s", property, seed, k, kind), 120*time.Second)
				t0 := time.Now()
				res := RunPlan(t, &plan, NewChoices(1), false)
				stop()
				res.Stats["sweep.points"] = 1
				emit(map[string]interface{}{"i": i, "res": res, "wallMs": time.Since(t0).Milliseconds(), "sweep": fmt.Sprintf("%d/%d %s", k, n, kind), "plan": &plan})
			}
		}
		if complete {
			emit(map[string]interface{}{"i": i, "sweepComplete": true, "calls": n, "kinds": len(sweepKinds)})
		}
	}
}

func runCampaign(t *testing.T) {
	property := os.Getenv("VERIF_PROPERTY")
	variant := os.Getenv("VERIF_PRESET")
	preset := presetFor(property, variant)
	pd := presets[preset]
	if pd == nil {
		t.Fatalf("no preset for %s/%s", property, variant)
	}
	base := envInt("VERIF_SEED", 1)
	from := envInt("VERIF_FROM", 0)
	to := envInt("VERIF_TO", 10)
	stride := envInt("VERIF_STRIDE", 1)
	budget := time.Duration(envInt("VERIF_BUDGET_MS", 0)) * time.Millisecond
	outDir := os.Getenv("VERIF_OUT")
	stopOnViol := envInt("VERIF_STOP_ON_VIOLATION", 1) == 1
	traceAll := os.Getenv("VERIF_TRACE") == "1"
	var out *bufio.Writer
	if outDir != "" {
		os.MkdirAll(outDir, 0o755)
		f, err := os.OpenFile(filepath.Join(outDir, fmt.Sprintf("results-%d.jsonl", from)), os.O_CREATE|os.O_WRONLY|os.O_TRUNC, 0o644)
		if err != nil {
			t.Fatal(err)
		}
		defer f.Close()
		out = bufio.NewWriter(f)
		defer out.Flush()
	}
	if variant == "sweep" {
		runSweep(t, property, base, from, to, stride, budget, outDir, func(line map[string]interface{}) {
			if res, ok := line["res"].(*Result); ok {
				if len(res.Violations) > 0 || res.HarnessErr != "" {
					plan := line["plan"].(*Plan)
					rp := &Replay{Property: property, Seed: plan.Seed, Plan: plan, Choices: res.choices, Trace: res.Trace, Violation: nil}
					if len(res.Violations) > 0 {
						rp.Violation = &res.Violations[0]
					}
					if outDir != "" {
						path := filepath.Join(outDir, fmt.Sprintf("fail-%s-%d-%s.json", property, plan.Seed, strings.ReplaceAll(fmt.Sprint(line["sweep"]), "/", "_")))
						path = strings.ReplaceAll(path, " ", "_")
						b, _ := json.MarshalIndent(rp, "", " ")
						os.WriteFile(path, b, 0o644)
						line["replay"] = path
					}
				} else if line["sweep"] == "pilot" && outDir != "" {
					b, _ := json.Marshal(&Replay{Property: property, Seed: res.Seed, Plan: line["plan"].(*Plan)})
					os.WriteFile(filepath.Join(outDir, fmt.Sprintf("sample-%d.json", from)), b, 0o644)
				}
				res.Trace = nil
			}
			delete(line, "plan")
			b, _ := json.Marshal(line)
			if out != nil {
				out.Write(b)
				out.WriteByte('\n')
				out.Flush()
			} else {
				fmt.Println(string(b))
			}
		})
		return
	}
	start := time.Now()
	for i := from; i < to; i += stride {
		if budget > 0 && time.Since(start) > budget {
			break
		}
		seed := deriveSeed(base, property, variant, i)
		plan := pd.generate(seed, property)
		ch := NewChoices(seed ^ 0x5eed)
		stop := watchdog(fmt.Sprintf("property=%s preset=%s runseed=%d index=%d", property, preset, seed, i), 120*time.Second)
		t0 := time.Now()
		res := RunPlan(t, plan, ch, traceAll)
		stop()
		wall := time.Since(t0)
		line := map[string]interface{}{"i": i, "res": res, "wallMs": wall.Milliseconds()}
		if len(res.Violations) > 0 || res.HarnessErr != "" {
			rp := &Replay{Property: property, Seed: seed, Plan: plan, Choices: res.choices, Trace: res.Trace}
			if len(res.Violations) > 0 {
				rp.Violation = &res.Violations[0]
			}
			if outDir != "" {
				path := filepath.Join(outDir, fmt.Sprintf("fail-%s-%d.json", property, seed))
				b, _ := json.MarshalIndent(rp, "", " ")
				os.WriteFile(path, b, 0o644)
				line["replay"] = path
			}
		} else if i == from && outDir != "" {
			// sample plan for the evidence file
			rp := &Replay{Property: property, Seed: seed, Plan: plan}
			b, _ := json.Marshal(rp)
			os.WriteFile(filepath.Join(outDir, fmt.Sprintf("sample-%d.json", from)), b, 0o644)
		}
		if !traceAll {
			res.Trace = nil
		}
		b, _ := json.Marshal(line)
		if out != nil {
			out.Write(b)
			out.WriteByte('\n')
			out.Flush()
		} else {
			fmt.Println(string(b))
		}
		if res.HarnessErr != "" {
			fmt.Printf("HARNESS-ERROR seed=%d: %s\n", seed, res.HarnessErr)
			os.Exit(4)
		}
		if len(res.Violations) > 0 && stopOnViol {
			break
		}
	}
}

func runReplay(t *testing.T) {
	path := os.Getenv("VERIF_REPLAY")
	b, err := os.ReadFile(path)
	if err != nil {
		t.Fatal(err)
	}
	var rp Replay
	if err := json.Unmarshal(b, &rp); err != nil {
		t.Fatal(err)
	}
	ch := ReplayChoices(rp.Choices)
	stop := watchdog("replay "+path, 300*time.Second)
	res := RunPlan(t, rp.Plan, ch, os.Getenv("VERIF_TRACE") == "1")
	stop()
	if os.Getenv("VERIF_TRACE") != "1" && len(res.Violations) == 0 {
		res.Trace = nil
	}
	out, _ := json.Marshal(res)
	fmt.Printf("RESULT %s\n", out)
	if os.Getenv("VERIF_PRINT_TRACE") == "1" {
		for _, l := range res.Trace {
			fmt.Println(l)
		}
	}
}
