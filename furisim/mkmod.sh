#!/bin/sh
# Generates go.mod/go.sum of the harness module from /repo's (same pinned
# dependency versions and replace directives), offline.
set -e
cd "$(dirname "$0")"
REPO=${VERIF_REPO:-/repo}
{
  echo "module furisim"
  echo
  echo "go 1.26.8"
  echo
  echo "require github.com/furiko-io/furiko v0.0.0"
  echo
  echo "replace github.com/furiko-io/furiko => $REPO"
  echo
  # copy require and replace blocks of the repo verbatim
  awk '/^require \(/,/^\)/' "$REPO/go.mod"
  awk '/^replace \(/,/^\)/' "$REPO/go.mod"
} > go.mod
cp "$REPO/go.sum" go.sum
