package furisim

import (
	"fmt"
	"sort"
	"strconv"
	"strings"
	"time"

	corev1 "k8s.io/api/core/v1"
	metav1 "k8s.io/apimachinery/pkg/apis/meta/v1"
	"k8s.io/apimachinery/pkg/runtime"

	execution "github.com/furiko-io/furiko/apis/execution/v1alpha1"
)

const (
	labelJobConfigUID  = "execution.furiko.io/job-config-uid"
	annScheduleTime    = "execution.furiko.io/schedule-time"
	annAdmissionError  = "execution.furiko.io/admission-error"
	labelPodJobUID     = "execution.furiko.io/job-uid"
	labelPodRetry      = "execution.furiko.io/task-retry-index"
	labelPodIndexHash  = "execution.furiko.io/task-parallel-index-hash"
	finalizerDependents = "execution.furiko.io/delete-dependents-finalizer"
)

// tracker keeps the complete history the monitors judge against.
type tracker struct {
	w         *World
	jobByRV   map[string]*execution.Job // every Job version ever stored, by resourceVersion
	podByRV   map[string]*corev1.Pod
	jobsByUID map[string]*jobTrack
	podCreates map[string][]*podCreate // by job UID
	dynHist   []dynSnap
}

type jobTrack struct {
	uid, key   string
	first      *execution.Job
	last       *execution.Job
	removedAt  *time.Time
	removedBy  string
	everInStatus map[string]bool
	pods       map[string]*podCreate // pod name -> creation by anyone for this job uid
	createAttempts map[string]int   // pod name -> number of create calls by the job controller
	firstDeletionSeenAt *time.Time
	userKillAt *time.Time
	recordedSucceeded map[string]bool // task name -> some status version recorded Result=Succeeded
	killRevoked string // set when a kill timestamp that had already passed was removed or changed
	resultSeq   uint64 // API sequence at which the current finished result was first recorded
	userEditSeq uint64 // API sequence of the last user edit (killTimestamp change / deletion request)
}

type podCreate struct {
	name   string
	uid    string
	hash   string
	retry  int
	at     time.Time
	byCtrl bool
}

type dynSnap struct {
	at  time.Time
	dyn DynConfig
}

func newTracker(w *World) *tracker {
	t := &tracker{w: w, podByRV: map[string]*corev1.Pod{}, jobByRV: map[string]*execution.Job{}, jobsByUID: map[string]*jobTrack{}, podCreates: map[string][]*podCreate{}}
	t.snapDyn()
	w.API.Listen(t.onEvent)
	w.onUserOp = append(w.onUserOp, func(op *UserOp, err error) {
		if op.Kind == "setConfig" {
			t.snapDyn()
		}
	})
	return t
}

func (t *tracker) snapDyn() {
	d := *t.w.Dyn
	d.Jobs = *t.w.Dyn.Jobs.DeepCopy()
	t.dynHist = append(t.dynHist, dynSnap{at: t.w.Sim.Now(), dyn: d})
}

// dynsSince returns every dynamic config that was in force at some instant of [from, now].
func (t *tracker) dynsSince(from time.Time) []*DynConfig {
	var out []*DynConfig
	for i := range t.dynHist {
		end := t.w.Sim.Now()
		if i+1 < len(t.dynHist) {
			end = t.dynHist[i+1].at
		}
		if !end.Before(from) {
			out = append(out, &t.dynHist[i].dyn)
		}
	}
	if len(out) == 0 {
		out = append(out, &t.dynHist[len(t.dynHist)-1].dyn)
	}
	return out
}

func (t *tracker) onEvent(ev *APIEvent) {
	switch ev.Res {
	case ResJobs:
		j := ev.Obj.(*execution.Job)
		t.jobByRV[j.ResourceVersion] = j
		jt := t.jobsByUID[string(j.UID)]
		if jt == nil {
			jt = &jobTrack{uid: string(j.UID), key: ev.Key, first: j, everInStatus: map[string]bool{}, pods: map[string]*podCreate{}, createAttempts: map[string]int{}, recordedSucceeded: map[string]bool{}}
			t.jobsByUID[jt.uid] = jt
		}
		if ev.Type == "DELETED" {
			now := ev.Time
			jt.removedAt = &now
			jt.removedBy = ev.Actor
			if ev.Verb != "delete" || true {
				// keep the last stored state as `last` (the DELETED event carries it)
			}
		}
		jt.last = j
		if j.DeletionTimestamp != nil && jt.firstDeletionSeenAt == nil {
			now := ev.Time
			jt.firstDeletionSeenAt = &now
		}
		for _, ref := range j.Status.Tasks {
			jt.everInStatus[ref.Name] = true
			if ref.Status.Result == execution.TaskSucceeded {
				jt.recordedSucceeded[ref.Name] = true
			}
		}
		if old, ok := ev.Old.(*execution.Job); ok && old != nil {
			killChanged := (old.Spec.KillTimestamp == nil) != (j.Spec.KillTimestamp == nil) ||
				(old.Spec.KillTimestamp != nil && j.Spec.KillTimestamp != nil && !old.Spec.KillTimestamp.Equal(j.Spec.KillTimestamp))
			delRequested := old.DeletionTimestamp == nil && j.DeletionTimestamp != nil
			if killChanged || delRequested {
				jt.userEditSeq = ev.Seq
			}
			if okt := old.Spec.KillTimestamp; killChanged && okt != nil && !okt.Time.After(ev.Time) && jt.killRevoked == "" {
				jt.killRevoked = fmt.Sprintf("kill timestamp %s had passed and was changed to %v at %s by %s", fmtT(okt.Time), j.Spec.KillTimestamp, fmtT(ev.Time), ev.Actor)
				t.w.Sim.Stats["mon.c12.passed_kill_changed"]++
			}
			of, nf := old.Status.Condition.Finished, j.Status.Condition.Finished
			if nf != nil && (of == nil || of.Result != nf.Result) {
				jt.resultSeq = ev.Seq
			}
		}
	case ResPods:
		t.podByRV[accessor(ev.Obj).GetResourceVersion()] = ev.Obj.(*corev1.Pod)
		if ev.Type != "ADDED" {
			return
		}
		p := ev.Obj.(*corev1.Pod)
		juid := p.Labels[labelPodJobUID]
		if ref := metav1.GetControllerOf(p); ref != nil && ref.Kind == "Job" {
			juid = string(ref.UID)
		}
		if juid == "" {
			return
		}
		retry, _ := strconv.Atoi(p.Labels[labelPodRetry])
		pc := &podCreate{name: p.Name, uid: string(p.UID), hash: p.Labels[labelPodIndexHash], retry: retry, at: ev.Time, byCtrl: strings.Contains(ev.Actor, "/job/")}
		t.podCreates[juid] = append(t.podCreates[juid], pc)
		if jt := t.jobsByUID[juid]; jt != nil {
			jt.pods[p.Name] = pc
		}
	}
}

// readJob returns the Job version the acting task read during its current
// sync (read-set rule), falling back to the authoritative object.
func (t *tracker) readJob(call *APICall, ns, name string) *execution.Job {
	if call != nil && call.ReadRV != nil {
		if rv, ok := call.ReadRV["jobs/"+ns+"/"+name]; ok && rv != "" {
			if j := t.jobByRV[rv]; j != nil {
				return j
			}
		}
	}
	if o := t.w.API.Peek(ResJobs, ns, name); o != nil {
		return o.(*execution.Job)
	}
	return nil
}

func (t *tracker) jobByUID(uid string) *execution.Job {
	for _, o := range t.w.API.ListRaw(ResJobs) {
		j := o.(*execution.Job)
		if string(j.UID) == uid {
			return j
		}
	}
	return nil
}

func (t *tracker) jobConfigByUID(uid string) *execution.JobConfig {
	for _, o := range t.w.API.ListRaw(ResJobConfigs) {
		jc := o.(*execution.JobConfig)
		if string(jc.UID) == uid {
			return jc
		}
	}
	return nil
}

func (t *tracker) jobsOfConfig(uid string) []*execution.Job {
	var out []*execution.Job
	for _, o := range t.w.API.ListRaw(ResJobs) {
		j := o.(*execution.Job)
		if j.Labels[labelJobConfigUID] == uid {
			out = append(out, j)
		}
	}
	return out
}

func (t *tracker) podsOfJob(uid string) []*corev1.Pod {
	var out []*corev1.Pod
	for _, o := range t.w.API.ListRaw(ResPods) {
		p := o.(*corev1.Pod)
		if ref := metav1.GetControllerOf(p); ref != nil && string(ref.UID) == uid {
			out = append(out, p)
		}
	}
	return out
}

func isStarted(j *execution.Job) bool  { return !j.Status.StartTime.IsZero() }
func isTerminal(j *execution.Job) bool { return j.Status.Phase.IsTerminal() }
func isQueued(j *execution.Job) bool   { return !isStarted(j) && !isTerminal(j) }
func isActive(j *execution.Job) bool   { return isStarted(j) && !isTerminal(j) }

func podTerminal(p *corev1.Pod) bool {
	return p.Status.Phase == corev1.PodSucceeded || p.Status.Phase == corev1.PodFailed
}

func jobPolicy(j *execution.Job) execution.ConcurrencyPolicy {
	if j.Spec.StartPolicy != nil {
		return j.Spec.StartPolicy.ConcurrencyPolicy
	}
	return ""
}

func jobDue(j *execution.Job, at time.Time) bool {
	if j.Spec.StartPolicy == nil || j.Spec.StartPolicy.StartAfter.IsZero() {
		return true
	}
	return !j.Spec.StartPolicy.StartAfter.Time.After(at)
}

func hasAdmissionError(j *execution.Job) bool {
	_, ok := j.Annotations[annAdmissionError]
	return ok
}

func ctrlOfCall(c *APICall) string {
	if c == nil {
		return ""
	}
	return c.Ctrl
}

func sortedJobNames(js []*execution.Job) []string {
	var out []string
	for _, j := range js {
		out = append(out, j.Name)
	}
	sort.Strings(out)
	return out
}

func fmtJob(j *execution.Job) string {
	return fmt.Sprintf("%s/%s(uid=%s phase=%s started=%v)", j.Namespace, j.Name, j.UID, j.Status.Phase, isStarted(j))
}

var _ = runtime.Object(nil)
