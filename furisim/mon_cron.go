package furisim

import (
	"fmt"
	"strconv"
	"strings"
	"time"

	"k8s.io/apimachinery/pkg/runtime"

	execution "github.com/furiko-io/furiko/apis/execution/v1alpha1"
)

// cronMon is the oracle for the stream of (JobConfig, scheduleTime) requests
// (C01, C03, C04). See DESIGN.md §8.

type cronVersion struct {
	idx  int
	seq  uint64 // API sequence at which this version became current
	at   time.Time
	fam  *schedFamily // nil: not scheduled (deleted, disabled, no cron)
	desc string
	uid  string
	lu   int64 // spec.schedule.lastUpdated (the admission webhook's own record of "the schedule was changed")
}

type cronKeyHist struct {
	key      string
	versions []*cronVersion
}

type cronProcKey struct {
	procIdx     int // version the worker has processed (-1 none)
	notifiedIdx int // version delivered to the cron informer handler / loaded at Init
	cacheIdx    int // version in the process's cache
	lb          time.Time // no request at or before lb
	cf          time.Time // completeness / exact-next are demanded for due times after cf
	inPassAt    time.Time // a change was delivered while a pass was running (it may be processed by that pass)
	fuzzy       bool      // the instant the last change was processed lies somewhere in [lb, cf]
	flushPass   int       // pass number in which the last change was processed
	lastFired   time.Time
	unstable    bool // cache/notification ran ahead of processing at some point since the last processing
}

type cronProcState struct {
	p        *Proc
	keys     map[string]*cronProcKey
	initDone bool
	initAt   time.Time
	inWork   bool
	ws       time.Time
	k        int
	counts   map[string]int
	reads    int
	works    int
}

type cronMon struct {
	w        *World
	hist     map[string]*cronKeyHist
	procs    map[*Proc]*cronProcState
	families map[string]*schedFamily
	prop     func(kind string) string // maps a check kind to the monitor id (property)
	Fired    map[string][]int64       // key -> fired unix times (all processes)
	MaxPersisted map[string]int64     // key -> max status.lastScheduled ever seen in API
	horizon  time.Duration
}

func newCronMon(w *World) *cronMon {
	m := &cronMon{w: w, hist: map[string]*cronKeyHist{}, procs: map[*Proc]*cronProcState{}, families: map[string]*schedFamily{},
		Fired: map[string][]int64{}, MaxPersisted: map[string]int64{}, horizon: 400 * 24 * time.Hour}
	m.prop = func(kind string) string { return w.Plan.Property + "/cron-" + kind }
	w.API.Listen(m.onAPI)
	w.onCacheChange = append(w.onCacheChange, m.onCache)
	w.onDeliver = append(w.onDeliver, m.onDeliver)
	w.onCronInit = append(w.onCronInit, m.onInit)
	w.onTickStart = append(w.onTickStart, m.onTickStart)
	w.onWorkEnd = append(w.onWorkEnd, m.onWorkEnd)
	w.onEnqueue = append(w.onEnqueue, m.onEnqueue)
	return m
}

func (m *cronMon) schedDesc(jc *execution.JobConfig) (string, []string, string, *time.Time, *time.Time) {
	sch := jc.Spec.Schedule
	if sch == nil || sch.Disabled || sch.Cron == nil {
		return "none", nil, "", nil, nil
	}
	exprs := []string(sch.Cron.GetExpressions())
	if len(exprs) == 0 {
		return "none", nil, "", nil, nil
	}
	tz := sch.Cron.Timezone
	if tz == "" {
		if d := m.w.Dyn.Cron.DefaultTimezone; d != nil && *d != "" {
			tz = *d
		} else {
			tz = "UTC"
		}
	}
	var nb, na *time.Time
	d := strings.Join(exprs, "|") + "@" + tz
	if c := sch.Constraints; c != nil {
		if c.NotBefore != nil && !c.NotBefore.IsZero() {
			t := c.NotBefore.Time
			nb = &t
			d += " nb=" + strconv.FormatInt(t.Unix(), 10)
		}
		if c.NotAfter != nil && !c.NotAfter.IsZero() {
			t := c.NotAfter.Time
			na = &t
			d += " na=" + strconv.FormatInt(t.Unix(), 10)
		}
	}
	return d, exprs, tz, nb, na
}

func (m *cronMon) hashSeconds() bool {
	c := m.w.Dyn.Cron
	names := c.CronHashNames == nil || *c.CronHashNames
	return names && c.CronHashSecondsByDefault != nil && *c.CronHashSecondsByDefault
}

func (m *cronMon) family(key, desc string, exprs []string, tz string, nb, na *time.Time) *schedFamily {
	loc, err := oracleLocation(tz)
	if err != nil {
		panic(fmt.Sprintf("oracle cannot load location %q: %v", tz, err))
	}
	hs := m.hashSeconds()
	// candidates are shared between versions with the same expressions so that a
	// hash value, once observed, must stay stable (also across restarts).
	ck := fmt.Sprintf("%s#%s#%v", key, strings.Join(exprs, "|"), hs)
	base := m.families[ck]
	if base == nil {
		f, err := newSchedFamily(exprs, hs, loc, nil, nil)
		if err != nil {
			panic(fmt.Sprintf("oracle cannot parse %v: %v", exprs, err))
		}
		m.families[ck] = f
		base = f
	}
	return &schedFamily{exprs: base.exprs, loc: loc, notBefore: nb, notAfter: na, desc: desc, base: base}
}

func (m *cronMon) onAPI(ev *APIEvent) {
	if ev.Res != ResJobConfigs {
		return
	}
	h := m.hist[ev.Key]
	if h == nil {
		h = &cronKeyHist{key: ev.Key}
		m.hist[ev.Key] = h
	}
	jc := ev.Obj.(*execution.JobConfig)
	if ls := jc.Status.LastScheduled; ls != nil && ev.Type != "DELETED" {
		if ls.Unix() < m.MaxPersisted[ev.Key] {
			// decreasing lastScheduled is judged by C15's monitor; keep the max here.
		} else {
			m.MaxPersisted[ev.Key] = ls.Unix()
		}
	}
	var desc string
	var fam *schedFamily
	if ev.Type == "DELETED" {
		desc = "deleted"
	} else {
		d, exprs, tz, nb, na := m.schedDesc(jc)
		desc = d
		if d != "none" {
			fam = m.family(ev.Key, d, exprs, tz, nb, na)
		}
	}
	uid := string(jc.UID)
	// A bumped lastUpdated is a schedule change in the API object even if expression,
	// timezone and constraints read the same (the webhook bumps it whenever the
	// schedule block differs in any field): the controller may re-base on it.
	lu := int64(0)
	if sch := jc.Spec.Schedule; sch != nil && sch.LastUpdated != nil && ev.Type != "DELETED" {
		lu = sch.LastUpdated.Unix()
	}
	if n := len(h.versions); n > 0 {
		last := h.versions[n-1]
		if last.desc == desc && last.uid == uid && (last.lu == lu || desc == "none" || desc == "deleted") {
			return
		}
	}
	h.versions = append(h.versions, &cronVersion{idx: len(h.versions), seq: ev.Seq, at: ev.Time, fam: fam, desc: desc, uid: uid, lu: lu})
}

// versionAt returns the index of the version current at API sequence seq.
func (m *cronMon) versionAt(key string, seq uint64) int {
	h := m.hist[key]
	if h == nil {
		return -1
	}
	idx := -1
	for _, v := range h.versions {
		if v.seq <= seq {
			idx = v.idx
		}
	}
	return idx
}

func rvOf(obj runtime.Object) uint64 {
	v, _ := strconv.ParseUint(accessor(obj).GetResourceVersion(), 10, 64)
	return v
}

func (m *cronMon) state(p *Proc) *cronProcState {
	st := m.procs[p]
	if st == nil {
		st = &cronProcState{p: p, keys: map[string]*cronProcKey{}, counts: map[string]int{}}
		m.procs[p] = st
	}
	return st
}

func (m *cronMon) pk(st *cronProcState, key string) *cronProcKey {
	k := st.keys[key]
	if k == nil {
		k = &cronProcKey{procIdx: -1, notifiedIdx: -1, cacheIdx: -1}
		st.keys[key] = k
	}
	return k
}

func (m *cronMon) latestIdx(key string) int {
	h := m.hist[key]
	if h == nil {
		return -1
	}
	return len(h.versions) - 1
}

func (m *cronMon) onCache(p *Proc, res Resource, key string, obj runtime.Object) {
	if res != ResJobConfigs || p.cronWorker == nil {
		return
	}
	st := m.state(p)
	k := m.pk(st, key)
	var idx int
	if obj == nil {
		// deleted in cache: the current version is the latest deleted one.
		idx = m.latestDeleted(key)
	} else {
		idx = m.versionAt(key, rvOf(obj))
	}
	if idx != k.cacheIdx {
		k.cacheIdx = idx
		if st.initDone && k.cacheIdx != k.procIdx {
			k.unstable = true
		}
	}
}

func (m *cronMon) latestDeleted(key string) int {
	h := m.hist[key]
	idx := -1
	if h != nil {
		for _, v := range h.versions {
			if v.desc == "deleted" {
				idx = v.idx
			}
		}
	}
	return idx
}

func (m *cronMon) onDeliver(l *simListener, n notification) {
	p := l.inf.proc
	if l != p.cronListener {
		return
	}
	st := m.state(p)
	var key string
	var idx int
	switch n.typ {
	case "delete":
		key = l.inf.idx.key(n.obj)
		idx = m.latestDeletedBefore(key, n)
	default:
		ro := n.obj.(runtime.Object)
		key = objKeyOf(ro)
		idx = m.versionAt(key, rvOf(ro))
	}
	k := m.pk(st, key)
	if idx > k.notifiedIdx {
		k.notifiedIdx = idx
		if st.inWork && k.inPassAt.IsZero() {
			k.inPassAt = m.w.Sim.Now()
		}
	}
}

func (m *cronMon) latestDeletedBefore(key string, n notification) int {
	return m.latestDeleted(key)
}

// onInit is called at the instant cronschedule.New reads the clock.
func (m *cronMon) onInit(p *Proc) {
	st := m.state(p)
	st.initDone = true
	st.initAt = m.w.Sim.Now()
	S := st.initAt
	thr := time.Duration(m.w.Dyn.Cron.MaxDowntimeThresholdSeconds) * time.Second
	if thr <= 0 {
		thr = 300 * time.Second // documented default
	}
	inf := p.informers[ResJobConfigs]
	for _, key := range sortedKeys(inf.idx.items) {
		jc := inf.idx.items[key].(*execution.JobConfig)
		k := m.pk(st, key)
		idx := m.versionAt(key, rvOf(jc))
		k.procIdx, k.notifiedIdx, k.cacheIdx = idx, maxInt(k.notifiedIdx, idx), idx
		k.unstable = false
		// reference lower bound (statement of C04)
		lb := S
		if ls := jc.Status.LastScheduled; ls != nil && !ls.IsZero() {
			lb = ls.Time
			if S.Add(-thr).After(lb) {
				lb = S.Add(-thr)
			}
		}
		if sch := jc.Spec.Schedule; sch != nil && sch.LastUpdated != nil && sch.LastUpdated.After(lb) {
			lb = sch.LastUpdated.Time
		}
		k.lb, k.cf, k.fuzzy, k.inPassAt = lb, lb, false, time.Time{}
		k.lastFired = time.Time{}
		m.w.Sim.Tracef("  ORACLE init %s %s: version=%d lb=%s", p.name, key, idx, lb.UTC().Format(time.RFC3339Nano))
	}
	// keys not in the cache at Init have processed nothing.
}

func maxInt(a, b int) int {
	if a > b {
		return a
	}
	return b
}

func (m *cronMon) onTickStart(p *Proc) {
	st := m.state(p)
	if !st.initDone {
		return
	}
	st.inWork = true
	st.works++
	m.w.Sim.Tracef("  ORACLE pass %d of %s starts", st.works, p.name)
	st.ws = m.w.Sim.Now()
	st.reads = 0
	st.counts = map[string]int{}
	st.k = 5 // documented default
	if v := m.w.Dyn.Cron.MaxMissedSchedules; v != nil {
		st.k = int(*v)
	}
	// flushes delivered before this instant are drained at the start of Work.
	for _, key := range sortedKeys(st.keys) {
		k := st.keys[key]
		if k.notifiedIdx > k.procIdx {
			k.procIdx = k.notifiedIdx
			k.flushPass = st.works
			k.lb, k.cf, k.fuzzy = st.ws, st.ws, false
			if !k.inPassAt.IsZero() {
				// delivered during the previous pass: that pass may already have processed it, at any
				// instant from the delivery on.
				k.lb, k.fuzzy = k.inPassAt, true
				k.inPassAt = time.Time{}
			}
			// "from the moment of the change": the statement allows the new schedule's times
			// after the instant the change was made, even if it is processed later; this
			// implementation re-bases from the processing instant, which completeness (cf)
			// accounts for. Only times at or before the change itself are back-dated.
			if v := m.version(key, k.procIdx); v != nil && v.at.Before(k.lb) {
				k.lb, k.fuzzy = v.at, true
			}
			k.lastFired = time.Time{}
			k.unstable = k.cacheIdx != k.procIdx
			m.w.Sim.Stats["probe.cron_flush_processed"]++
			m.w.Sim.Tracef("  ORACLE flush %s %s: version=%d lb=%s unstable=%v", p.name, key, k.procIdx, st.ws.UTC().Format(time.RFC3339Nano), k.unstable)
		}
	}
}

func (m *cronMon) version(key string, idx int) *cronVersion {
	h := m.hist[key]
	if h == nil || idx < 0 || idx >= len(h.versions) {
		return nil
	}
	return h.versions[idx]
}

func effLB(k *cronProcKey) time.Time {
	if k.lastFired.After(k.lb) {
		return k.lastFired
	}
	return k.lb
}

func (m *cronMon) onEnqueue(p *Proc, jc *execution.JobConfig, t time.Time) {
	s := m.w.Sim
	st := m.state(p)
	key := jc.Namespace + "/" + jc.Name
	now := s.Now()
	k := m.pk(st, key)
	m.Fired[key] = append(m.Fired[key], t.Unix())
	if !st.inWork {
		s.Violate(m.prop("enqueue-outside-work"), "%s enqueued %s@%d outside Work", p.name, key, t.Unix())
		return
	}
	// never early
	if t.After(now) {
		s.Violate(m.prop("early"), "%s requested %s for %s at clock %s (before it arrived)", p.name, key, fmtT(t), fmtT(now))
		return
	}
	// strictly increasing / exactly once per process
	if !k.lastFired.IsZero() && !t.After(k.lastFired) {
		s.Violate(m.prop("not-increasing"), "%s requested %s for %s after already requesting %s", p.name, key, fmtT(t), fmtT(k.lastFired))
		return
	}
	// nothing at or before the lower bound (no back-dating, no re-request after restart)
	if !t.After(k.lb) {
		s.Violate(m.prop("at-or-before-lower-bound"), "%s requested %s for %s which is not after the lower bound %s (version %d)", p.name, key, fmtT(t), fmtT(k.lb), k.procIdx)
		return
	}
	// cap per Work
	st.counts[key]++
	if st.counts[key] > st.k {
		s.Violate(m.prop("cap-exceeded"), "%s requested %d times for %s in one pass, limit %d", p.name, st.counts[key], key, st.k)
		return
	}
	// explained by a version between the processed one and the one in cache
	lo, hi := k.procIdx, k.cacheIdx
	if lo < 0 {
		lo = 0
	}
	if hi < lo {
		hi = lo
	}
	explained := false
	for i := lo; i <= hi; i++ {
		v := m.version(key, i)
		if v == nil || v.fam == nil || !v.fam.inWindow(t) {
			continue
		}
		if v.fam.any(func(c []*concrete) bool { return candMatches(c, t, v.fam.loc) }) {
			explained = true
			break
		}
	}
	if !explained {
		vd := "none"
		if v := m.version(key, k.procIdx); v != nil {
			vd = v.desc
		}
		s.Violate(m.prop("off-schedule"), "%s requested %s for %s which matches no schedule in force (processed version %d: %s; cache version %d)", p.name, key, fmtT(t), k.procIdx, vd, k.cacheIdx)
		return
	}
	// exact next element when the schedule is stable
	if !k.unstable && !k.fuzzy && k.procIdx == k.cacheIdx && k.procIdx >= 0 {
		v := m.version(key, k.procIdx)
		lb := effLB(k)
		ok := v.fam.filter(func(c []*concrete) bool {
			return candMatches(c, t, v.fam.loc) && v.fam.nextIn(c, lb, t).Equal(t)
		})
		if !ok {
			exp := time.Time{}
			if cs := v.fam.candidates(); len(cs) > 0 {
				exp = v.fam.nextIn(cs[0], lb, now)
			}
			s.Violate(m.prop("skipped"), "%s requested %s for %s but the first due time after %s is %s (%s)", p.name, key, fmtT(t), fmtT(lb), fmtT(exp), v.desc)
			return
		}
		s.Stats["probe.cron_exact_checked"]++
	}
	k.lastFired = t
	if k.fuzzy && t.After(k.cf) {
		k.fuzzy = false
	}
}

func fmtT(t time.Time) string {
	if t.IsZero() {
		return "<none>"
	}
	return t.UTC().Format("2006-01-02T15:04:05.000Z")
}

func (m *cronMon) onWorkEnd(p *Proc) {
	s := m.w.Sim
	st := m.state(p)
	if !st.inWork {
		return
	}
	st.inWork = false
	s.Tracef("  ORACLE pass %d of %s ends (started %s)", st.works, p.name, fmtT(st.ws))
	endNow := s.Now()
	for _, key := range sortedKeys(st.keys) {
		k := st.keys[key]
		if k.procIdx < 0 {
			continue
		}
		if k.flushPass == st.works && endNow.After(st.ws) {
			// time passed inside this pass: the change was processed (bumped from the live clock)
			// somewhere between the pass's start and its end.
			if endNow.After(k.cf) {
				k.cf = endNow
			}
			k.fuzzy = true
		}
		if st.counts[key] >= st.k {
			// cap reached: resume from the present.
			if st.ws.After(k.lb) {
				k.lb = st.ws
			}
			if st.ws.After(k.cf) {
				k.cf = st.ws
			}
			s.Stats["probe.cron_cap_hit"]++
			continue
		}
		if k.unstable || k.procIdx != k.cacheIdx {
			s.Stats["probe.cron_unstable_pass"]++
			continue
		}
		v := m.version(key, k.procIdx)
		if v == nil || v.fam == nil {
			continue
		}
		lb := effLB(k)
		if k.cf.After(lb) {
			lb = k.cf
		}
		// every due time in (lb, ws] must have been requested by now.
		ok := v.fam.filter(func(c []*concrete) bool {
			return v.fam.nextIn(c, lb, st.ws).IsZero()
		})
		if !ok {
			missed := v.fam.nextIn(v.fam.candidates()[0], lb, st.ws)
			s.Violate(m.prop("missed"), "%s did not request %s for %s although its pass started at %s (lower bound %s, schedule %s)", p.name, key, fmtT(missed), fmtT(st.ws), fmtT(lb), v.desc)
			return
		}
		s.Stats["probe.cron_complete_checked"]++
	}
}

// noteRead is called for every jobconfig cache read by the ticker inside Work;
// an unbounded number of reads in one pass is a livelock.
func (m *cronMon) noteTickerRead(p *Proc) bool {
	st := m.state(p)
	if !st.inWork {
		return true
	}
	st.reads++
	if st.reads > 3000 {
		m.w.Sim.Violate(m.prop("work-livelock"), "%s: one scheduling pass performed %d cache reads without finishing (started %s, clock %s)", p.name, st.reads, fmtT(st.ws), fmtT(m.w.Sim.Now()))
		return false
	}
	return true
}
