package furisim

import (
	"fmt"
	"sort"
	"strconv"
	"strings"
	"time"

	corev1 "k8s.io/api/core/v1"
	metav1 "k8s.io/apimachinery/pkg/apis/meta/v1"
	"k8s.io/apimachinery/pkg/runtime"

	execution "github.com/furiko-io/furiko/apis/execution/v1alpha1"
)

// installMonitors arms the monitors of the `full` preset. Every monitor id is
// "<property>/<kind>"; Sim.Armed decides which ones stop the run.
func installMonitors(w *World) {
	s := w.Sim
	armed := map[string]bool{w.Plan.Property: true}
	if w.Plan.Property == "C20" {
		for _, p := range []string{"C02", "C05", "C06", "C07", "C08", "C09", "C10", "C11", "C12", "C13"} {
			armed[p] = true
		}
	}
	s.Armed = armed
	t := newTracker(w)
	w.Track = t
	m := &fullMon{w: w, t: t, enqueued: map[string]bool{}, startWrites: map[string]int{}, pendingVerify: map[string]string{}}
	w.Mon = m
	w.API.PreHook(m.preWrite)
	w.API.Listen(m.onEvent)
	w.onCall = append(w.onCall, m.onCall)
	w.onEnqueue = append(w.onEnqueue, func(p *Proc, jc *execution.JobConfig, ts time.Time) {
		m.enqueued[fmt.Sprintf("%s/%s@%d", jc.Namespace, jc.Name, ts.Unix())] = true
	})
	w.atFixpoint = append(w.atFixpoint, m.fixpoint)
}

type fullMon struct {
	w           *World
	t           *tracker
	enqueued    map[string]bool
	startWrites map[string]int
	// C07: Jobs the job-queue controller refused while their startAfter was still ahead
	earlyRefused []*earlyRefusal
	pendingVerify map[string]string
}

func (m *fullMon) v(id, format string, args ...interface{}) { m.w.Sim.Violate(id, format, args...) }
func (m *fullMon) stat(k string)                            { m.w.Sim.Stats[k]++ }

// ---------------------------------------------------------------------------
// pre-write checks (state before the write is still in the API server)

func (m *fullMon) preWrite(actor, verb string, res Resource, old, obj runtime.Object) {
	call := m.w.Sim.curCall
	switch res {
	case ResJobs:
		var oj, nj *execution.Job
		if old != nil {
			oj = old.(*execution.Job)
		}
		if obj != nil {
			nj = obj.(*execution.Job)
		}
		if oj == nil && nj != nil {
			m.c02Create(call, nj)
		}
		if oj != nil {
			m.c07ObserveEarlyRefused(call, oj, nj)
		}
		if oj != nil && nj != nil {
			if !isStarted(oj) && isStarted(nj) {
				m.startWrite(call, oj, nj)
			}
			if !hasAdmissionError(oj) && hasAdmissionError(nj) && ctrlOfCall(call) == "jobqueue" {
				m.stat("mon.c06.policy_decisions")
				m.c07Refusal(oj)
				if pol := jobPolicy(oj); pol != execution.ConcurrencyPolicyForbid {
					m.v("C06/refused-non-forbid", "job-queue controller refused %s whose policy is %q", fmtJob(oj), pol)
				}
			}
			if !hasAdmissionError(oj) && hasAdmissionError(nj) && ctrlOfCall(call) == "job" {
				m.c09Refusal(nj)
			}
			if oj.Status.Condition.Finished == nil && nj.Status.Condition.Finished != nil {
				m.c10Finish(call, oj, nj)
			}
			m.c11Pair(call, verb, oj, nj)
		}
	case ResPods:
		if old == nil && obj != nil && ctrlOfCall(call) == "job" {
			m.c08PodCreate(call, obj.(*corev1.Pod))
		}
	case ResJobConfigs:
		if old != nil && obj != nil {
			m.c15Pair(call, old.(*execution.JobConfig), obj.(*execution.JobConfig))
		}
	}
}

// ---------------------------------------------------------------------------
// C07: a Job refused before it was due

// earlyRefusal records a Job that the job-queue controller refused (terminal
// admission error) while its startAfter was still in the future. C07 demands
// that the Job is started once startAfter has passed and the policy allows;
// a refused Job can never start, so this is a violation exactly when the
// policy does allow from startAfter on. The monitor is deliberately narrow: it
// reports only when the JobConfig was never seen at its limit at any point
// from startAfter to the fixpoint (the active set changes only through Job
// writes, and each write of the JobConfig's Jobs is observed in its
// pre-state), the JobConfig still exists, and nobody but a controller removed
// the Job before it was due.
type earlyRefusal struct {
	job        string
	uid        string
	cfgUID     string
	startAfter time.Time
	refusedAt  time.Time
	sawFull    bool
	dropped    bool
}

func (m *fullMon) c07Refusal(oj *execution.Job) {
	sp := oj.Spec.StartPolicy
	if sp == nil || sp.StartAfter.IsZero() {
		return
	}
	now := m.w.Sim.Now()
	if !now.Before(sp.StartAfter.Time) {
		return
	}
	m.stat("mon.c07.refused_before_due")
	uid := oj.Labels[labelJobConfigUID]
	if uid == "" || metav1.GetControllerOf(oj) == nil {
		return
	}
	m.earlyRefused = append(m.earlyRefused, &earlyRefusal{job: fmtJob(oj), uid: string(oj.UID), cfgUID: uid, startAfter: sp.StartAfter.Time, refusedAt: now})
}

// cfgAtLimit reports whether the JobConfig is at (or over) its concurrency
// limit in the ground truth, or cannot be judged.
func (m *fullMon) cfgAtLimit(cfgUID string) bool {
	jc := m.t.jobConfigByUID(cfgUID)
	if jc == nil {
		return true
	}
	active := 0
	for _, x := range m.t.jobsOfConfig(cfgUID) {
		if isActive(x) {
			active++
		}
	}
	return active >= int(jc.Spec.Concurrency.GetMaxConcurrency())
}

func (m *fullMon) c07ObserveEarlyRefused(call *APICall, oj, nj *execution.Job) {
	if len(m.earlyRefused) == 0 {
		return
	}
	now := m.w.Sim.Now()
	cfg := oj.Labels[labelJobConfigUID]
	for _, r := range m.earlyRefused {
		if r.dropped || r.sawFull {
			continue
		}
		if r.uid == string(oj.UID) && now.Before(r.startAfter) && ctrlOfCall(call) == "" &&
			(nj == nil || (oj.DeletionTimestamp == nil && nj.DeletionTimestamp != nil)) {
			r.dropped = true // removed by the user (or the GC) before it was due
			continue
		}
		if r.cfgUID == cfg && !now.Before(r.startAfter) && m.cfgAtLimit(cfg) {
			r.sawFull = true
		}
	}
}

func (m *fullMon) c07EarlyRefusedFixpoint() {
	now := m.w.Sim.Now()
	for _, r := range m.earlyRefused {
		if r.dropped || r.sawFull || now.Before(r.startAfter) {
			continue
		}
		if m.t.jobConfigByUID(r.cfgUID) == nil || m.cfgAtLimit(r.cfgUID) {
			continue
		}
		m.v("C07/refused-before-due", "%s was refused at %s, before its startAfter %s; since startAfter passed its JobConfig was never at its concurrency limit, so the policy allowed the start, but a refused Job never starts", r.job, fmtT(r.refusedAt), fmtT(r.startAfter))
		r.dropped = true // reported once
	}
}

// ---------------------------------------------------------------------------
// C02

func (m *fullMon) c02Create(call *APICall, j *execution.Job) {
	if ctrlOfCall(call) != "cron" {
		return
	}
	m.stat("mon.c02.creates")
	ref := metav1.GetControllerOf(j)
	if ref == nil || ref.Kind != "JobConfig" {
		m.v("C02/owner", "scheduled Job %s/%s has no controller owner reference to a JobConfig", j.Namespace, j.Name)
		return
	}
	nOwners := 0
	for _, o := range j.OwnerReferences {
		if o.Controller != nil && *o.Controller {
			nOwners++
		}
	}
	if nOwners != 1 {
		m.v("C02/owner", "scheduled Job %s/%s has %d controller owner references", j.Namespace, j.Name, nOwners)
		return
	}
	if j.Labels[labelJobConfigUID] != string(ref.UID) {
		m.v("C02/label", "scheduled Job %s/%s: job-config-uid label %q differs from owner UID %q", j.Namespace, j.Name, j.Labels[labelJobConfigUID], ref.UID)
		return
	}
	ann, ok := j.Annotations[annScheduleTime]
	ts, err := strconv.ParseInt(ann, 10, 64)
	if !ok || err != nil {
		m.v("C02/annotation", "scheduled Job %s/%s has no valid schedule-time annotation (%q)", j.Namespace, j.Name, ann)
		return
	}
	if want := fmt.Sprintf("%s-%d", ref.Name, ts); j.Name != want {
		m.v("C02/name", "scheduled Job is named %q, expected %q (JobConfig %s, schedule time %d)", j.Name, want, ref.Name, ts)
		return
	}
	if !m.enqueued[fmt.Sprintf("%s/%s@%d", j.Namespace, ref.Name, ts)] {
		m.v("C02/never-requested", "Job %s/%s was created for (JobConfig %s, time %d) which was never requested by the scheduler", j.Namespace, j.Name, ref.Name, ts)
		return
	}
	// owner must be a JobConfig that exists or existed under that name and UID
	found := false
	for _, ev := range m.w.API.log[ResJobConfigs] {
		if jc := ev.Obj.(*execution.JobConfig); jc.Name == ref.Name && jc.Namespace == j.Namespace && jc.UID == ref.UID {
			found = true
			break
		}
	}
	if !found {
		m.v("C02/owner", "Job %s/%s is owned by JobConfig %s uid=%s which never existed", j.Namespace, j.Name, ref.Name, ref.UID)
		return
	}
	// uniqueness per (owner UID, schedule time) among coexisting Jobs
	for _, o := range m.w.API.ListRaw(ResJobs) {
		x := o.(*execution.Job)
		if x.Labels[labelJobConfigUID] == string(ref.UID) && x.Annotations[annScheduleTime] == ann {
			m.v("C02/duplicate", "two Jobs for JobConfig uid=%s and schedule time %s: existing %s, new %s", ref.UID, ann, x.Name, j.Name)
			return
		}
	}
}

// ---------------------------------------------------------------------------
// C05 / C06 / C07 / C11: the start write

func (m *fullMon) startWrite(call *APICall, oj, nj *execution.Job) {
	s := m.w.Sim
	now := s.Now()
	m.startWrites[string(oj.UID)]++
	// C07: never before startAfter
	if sp := oj.Spec.StartPolicy; sp != nil && !sp.StartAfter.IsZero() {
		m.stat("mon.c07.startafter_starts")
		if now.Before(sp.StartAfter.Time) {
			m.v("C07/early-start", "%s started at %s, before its startAfter %s", fmtJob(oj), fmtT(now), fmtT(sp.StartAfter.Time))
			return
		}
		late := now.Sub(sp.StartAfter.Time)
		if late > 2*time.Second {
			m.stat("mon.c07.late_start_over_2s")
		}
	}
	// C06(1): refused Jobs never run
	if hasAdmissionError(oj) {
		m.v("C06/refused-started", "%s carries an admission error but was started", fmtJob(oj))
		return
	}
	uid := oj.Labels[labelJobConfigUID]
	if uid == "" || metav1.GetControllerOf(oj) == nil {
		return
	}
	jc := m.t.jobConfigByUID(uid)
	if jc == nil {
		return
	}
	pol := jobPolicy(oj)
	others := m.t.jobsOfConfig(uid)
	active := 0
	contended := false
	for _, x := range others {
		if x.UID == oj.UID {
			continue
		}
		if isActive(x) {
			active++
			contended = true
		} else if isQueued(x) {
			contended = true
		}
	}
	if pol == execution.ConcurrencyPolicyForbid || pol == execution.ConcurrencyPolicyEnqueue {
		if contended {
			m.stat("mon.c05.contended_starts")
		}
		max := int(jc.Spec.Concurrency.GetMaxConcurrency())
		if active >= max {
			var names []string
			for _, x := range others {
				if x.UID != oj.UID && isActive(x) {
					names = append(names, x.Name)
				}
			}
			sort.Strings(names)
			m.v("C05/over-admission", "%s (policy %s) started while JobConfig %s already has %d active Job(s) %v, maxConcurrency %d", fmtJob(oj), pol, jc.Name, active, names, max)
			return
		}
	}
	// C06(3): FIFO among Enqueue Jobs
	if pol == execution.ConcurrencyPolicyEnqueue {
		m.stat("mon.c06.policy_decisions")
		syncStart := now
		if call != nil && !call.SyncStart.IsZero() {
			syncStart = call.SyncStart
		}
		for _, x := range others {
			if x.UID == oj.UID || jobPolicy(x) != execution.ConcurrencyPolicyEnqueue || !isQueued(x) || x.DeletionTimestamp != nil || hasAdmissionError(x) {
				continue
			}
			if x.CreationTimestamp.Time.Before(oj.CreationTimestamp.Time) && jobDue(x, syncStart) {
				// the earlier Job must have been visible to the controller: it was if its version is in the read set.
				if call != nil && call.ReadRV != nil {
					if _, seen := call.ReadRV["jobs/"+x.Namespace+"/"+x.Name]; !seen {
						m.stat("mon.c06.fifo_skipped_unseen")
						continue
					}
				}
				m.v("C06/fifo", "%s (created %s) started while earlier-created due Enqueue Job %s (created %s) is still queued", fmtJob(oj), fmtT(oj.CreationTimestamp.Time), x.Name, fmtT(x.CreationTimestamp.Time))
				return
			}
		}
	}
}

// ---------------------------------------------------------------------------
// C08: every Pod create by the job controller

func (m *fullMon) c08PodCreate(call *APICall, pod *corev1.Pod) {
	s := m.w.Sim
	now := s.Now()
	ref := metav1.GetControllerOf(pod)
	if ref == nil || ref.Kind != "Job" {
		m.v("C08/owner", "job controller created Pod %s without a controller owner reference to a Job", pod.Name)
		return
	}
	juid := string(ref.UID)
	hash := pod.Labels[labelPodIndexHash]
	retry, err := strconv.Atoi(pod.Labels[labelPodRetry])
	if err != nil {
		m.v("C08/labels", "Pod %s has no retry index label", pod.Name)
		return
	}
	cur := m.t.jobByUID(juid)
	if cur == nil {
		m.v("C08/orphan-create", "Pod %s created for Job uid=%s which does not exist", pod.Name, juid)
		return
	}
	jt := m.t.jobsByUID[juid]
	if retry > 0 {
		m.stat("mon.c08.retry_creates")
	}
	if cur.Spec.Template != nil && cur.Spec.Template.Parallelism != nil {
		m.stat("mon.c08.parallel_creates")
	}
	// (a) at most one live task per index
	for _, p := range m.t.podsOfJob(juid) {
		if p.Labels[labelPodIndexHash] == hash && !podTerminal(p) {
			m.v("C08/two-live", "Pod %s created for Job %s index %s while Pod %s of the same index exists and is not finished (phase %s)", pod.Name, cur.Name, hash, p.Name, p.Status.Phase)
			return
		}
	}
	// (b) retries without gaps, bounded
	prev := map[int]*podCreate{}
	for _, pc := range m.t.podCreates[juid] {
		if pc.hash == hash {
			prev[pc.retry] = pc
		}
	}
	if pp, dup := prev[retry]; dup {
		// a second task for the same attempt is a duplicate if the first one still
		// exists or was ever recorded; a task that was created, never recorded
		// (crash/fault in between) and has since vanished cannot be adopted any more.
		stillThere := false
		for _, p := range m.t.podsOfJob(juid) {
			if string(p.UID) == pp.uid {
				stillThere = true
			}
		}
		// "recorded" is judged on the Job version the controller read (a stale cache cannot know
		// about a record it has not seen yet).
		recordedInRead := false
		if rjx := m.t.readJob(call, cur.Namespace, cur.Name); rjx != nil && rjx.UID == cur.UID {
			for _, r := range rjx.Status.Tasks {
				if r.Name == pp.name {
					recordedInRead = true
				}
			}
		}
		if stillThere || recordedInRead {
			m.v("C09/duplicate-task", "second Pod created for Job %s index %s retry %d (first: %s, still exists: %v)", cur.Name, hash, retry, pp.name, stillThere)
			return
		}
		// ... unless it vanished because this controller deleted it itself: then the
		// Job has forgotten a task it had adopted and acted on.
		if tr := m.w.Kubelet.ByUID[pp.uid]; tr != nil {
			byCtrl := func(a string) bool { return strings.Contains(a, "/job/") || strings.HasPrefix(a, "anon:") }
			if byCtrl(tr.DelBy) || (tr.DelBy == "" && byCtrl(tr.GoneBy)) {
				m.v("C09/duplicate-task", "second Pod created for Job %s index %s retry %d: the first one (%s) was deleted by the job controller itself before it was ever recorded in status.tasks, and has been forgotten", cur.Name, hash, retry, pp.name)
				return
			}
		}
		m.stat("mon.c09.recreated_vanished_unrecorded")
	}
	for r := 0; r < retry; r++ {
		if prev[r] == nil {
			m.v("C08/retry-gap", "Pod %s has retry %d but retry %d of index %s was never created", pod.Name, retry, r, hash)
			return
		}
	}
	if max := int(cur.GetMaxAttempts()); retry >= max {
		m.v("C08/too-many-attempts", "Pod %s is attempt %d of index %s, maxAttempts %d", pod.Name, retry+1, hash, max)
		return
	}
	// (c) retry delay
	if retry > 0 {
		pp := prev[retry-1]
		truth := m.w.Kubelet.ByUID[pp.uid]
		if truth != nil {
			var fin time.Time
			switch {
			case truth.Finished != nil:
				fin = *truth.Finished
			case truth.Gone != nil:
				fin = *truth.Gone
			}
			if fin.IsZero() {
				m.v("C08/retry-while-alive", "Pod %s (retry %d) created while previous attempt %s neither finished nor disappeared", pod.Name, retry, pp.name)
				return
			}
			earliest := fin.Truncate(time.Second).Add(cur.GetRetryDelay())
			if now.Before(earliest) {
				m.v("C08/retry-too-early", "Pod %s (retry %d) created at %s, previous attempt ended %s, retryDelay %s", pod.Name, retry, fmtT(now), fmtT(fin), cur.GetRetryDelay())
				return
			}
		}
	}
	// (d)/(e) judged on the version of the Job the controller read
	rj := m.t.readJob(call, cur.Namespace, cur.Name)
	if rj == nil || rj.UID != cur.UID {
		rj = cur
	}
	for _, tr := range rj.Status.Tasks {
		h := "gezdqo"
		if tr.ParallelIndex != nil {
			h = m.indexHash(rj, tr.ParallelIndex)
		}
		if h == hash && tr.Status.Result == execution.TaskSucceeded {
			m.v("C08/create-after-success", "Pod %s created for index %s of Job %s although task %s of that index is recorded as succeeded", pod.Name, hash, cur.Name, tr.Name)
			return
		}
	}
	if jt != nil && jt.killRevoked != "" {
		m.v("C12/create-after-kill-passed", "Pod %s created for Job %s after its kill timestamp had passed (%s)", pod.Name, cur.Name, jt.killRevoked)
		return
	}
	if rj.Spec.KillTimestamp != nil {
		m.v("C08/create-after-kill", "Pod %s created for Job %s which has a kill timestamp (%s) in the version the controller read", pod.Name, cur.Name, fmtT(rj.Spec.KillTimestamp.Time))
		return
	}
	if hasAdmissionError(rj) {
		m.v("C08/create-after-admission-error", "Pod %s created for Job %s which has an admission error", pod.Name, cur.Name)
		return
	}
	if rj.DeletionTimestamp != nil {
		m.v("C08/create-while-deleting", "Pod %s created for Job %s which is being deleted", pod.Name, cur.Name)
		return
	}
	if dec := m.decidedAsSeenBy(call, rj); dec != "" {
		m.v("C08/create-after-complete", "Pod %s created for Job %s although its completion strategy is already decided (%s) by what the controller had recorded and cached", pod.Name, cur.Name, dec)
		return
	}
	if rj.Status.Condition.Finished != nil {
		m.v("C08/create-after-finish", "Pod %s created for Job %s which is already finished (%s)", pod.Name, cur.Name, rj.Status.Condition.Finished.Result)
		return
	}
	if jt != nil {
		_ = jt
	}
}

// decidedAsSeenBy evaluates the completion strategy on what the acting controller
// knew: the task list of the Job version it read, refreshed with the Pods in its
// own Pod cache. Returns "Success", "Failed" or "".
func (m *fullMon) decidedAsSeenBy(call *APICall, rj *execution.Job) string {
	if call == nil {
		return ""
	}
	var proc *Proc
	for _, p := range m.w.Procs {
		if p.name == call.Proc {
			proc = p
		}
	}
	if proc == nil || proc.informers[ResPods] == nil {
		return ""
	}
	type st struct {
		hash               string
		finished, succeeded bool
	}
	seen := map[string]*st{}
	for _, tr := range rj.Status.Tasks {
		h := "gezdqo"
		if tr.ParallelIndex != nil {
			h = m.indexHash(rj, tr.ParallelIndex)
		}
		seen[tr.Name] = &st{hash: h, finished: tr.FinishTimestamp != nil, succeeded: tr.Status.Result == execution.TaskSucceeded}
	}
	apply := func(p *corev1.Pod) {
		if ref := metav1.GetControllerOf(p); ref == nil || ref.UID != rj.UID {
			return
		}
		x := seen[p.Name]
		if x == nil {
			return // only tasks the Job has recorded take part
		}
		if p.Status.Phase == corev1.PodSucceeded {
			x.finished, x.succeeded = true, true
		} else if p.Status.Phase == corev1.PodFailed {
			x.finished = true
		}
	}
	// only what the acting sync itself read counts (the cache may have moved on since)
	// a recorded, unfinished task whose Pod the sync looked up and did not find (and which is
	// really gone) is finished without success from the controller's point of view
	for name, x := range seen {
		if x.finished {
			continue
		}
		if rv, ok := call.ReadRV["pods/"+rj.Namespace+"/"+name]; ok && rv == "" && m.w.API.Peek(ResPods, rj.Namespace, name) == nil {
			x.finished = true
		}
	}
	// and the Pod versions the acting sync actually read (they may have left the cache since)
	for k, rv := range call.ReadRV {
		if strings.HasPrefix(k, "pods/") && rv != "" {
			if pv := m.t.podByRV[rv]; pv != nil {
				apply(pv)
			}
		}
	}
	succ := map[string]bool{}
	fails := map[string]int{}
	for _, x := range seen {
		if x.hash == "" {
			return "" // cannot attribute: stay silent
		}
		if x.succeeded {
			succ[x.hash] = true
		} else if x.finished {
			fails[x.hash]++
		}
	}
	n := numIndexes(rj)
	max := int(rj.GetMaxAttempts())
	nsucc, nexh := 0, 0
	for h := range succ {
		_ = h
		nsucc++
	}
	for h, c := range fails {
		if !succ[h] && c >= max {
			nexh++
		}
	}
	switch strategyOf(rj) {
	case execution.AnySuccessful:
		if nsucc > 0 {
			return "Success"
		}
		if nexh >= n {
			return "Failed"
		}
	default:
		if nsucc >= n {
			return "Success"
		}
		if nexh > 0 {
			return "Failed"
		}
	}
	return ""
}

// indexHash finds the hash of a parallel index by matching it against the
// status the controller itself published (ParallelStatus lists index+hash).
func (m *fullMon) indexHash(j *execution.Job, idx *execution.ParallelIndex) string {
	if ps := j.Status.ParallelStatus; ps != nil {
		for _, is := range ps.Indexes {
			if sameIndex(&is.Index, idx) {
				return is.Hash
			}
		}
	}
	return ""
}

func sameIndex(a, b *execution.ParallelIndex) bool {
	if (a.IndexNumber == nil) != (b.IndexNumber == nil) {
		return false
	}
	if a.IndexNumber != nil && *a.IndexNumber != *b.IndexNumber {
		return false
	}
	if a.IndexKey != b.IndexKey || len(a.MatrixValues) != len(b.MatrixValues) {
		return false
	}
	for k, v := range a.MatrixValues {
		if b.MatrixValues[k] != v {
			return false
		}
	}
	return true
}

// ---------------------------------------------------------------------------
// C10: the finishing write

type indexTruth struct {
	hash       string
	succeeded  bool
	unsuccessful int // attempts that ended without success (failed, killed, lost)
	alive      int
	created    int
}

func (m *fullMon) truthByIndex(juid string, alsoRecorded ...*execution.Job) map[string]*indexTruth {
	out := map[string]*indexTruth{}
	recNow := map[string]bool{}
	for _, j := range alsoRecorded {
		if j != nil {
			for _, r := range j.Status.Tasks {
				if r.Status.Result == execution.TaskSucceeded {
					recNow[r.Name] = true
				}
			}
		}
	}
	for _, pc := range m.t.podCreates[juid] {
		it := out[pc.hash]
		if it == nil {
			it = &indexTruth{hash: pc.hash}
			out[pc.hash] = it
		}
		it.created++
		tr := m.w.Kubelet.ByUID[pc.uid]
		if tr == nil {
			continue
		}
		jt := m.t.jobsByUID[juid]
		byCtrl := func(a string) bool { return strings.Contains(a, "/job/") || strings.HasPrefix(a, "anon:") }
		killedUnseen := tr.Finished != nil && tr.Outcome == "succeed" && tr.Gone != nil &&
			(byCtrl(tr.GoneBy) || byCtrl(tr.DelBy)) && jt != nil && !jt.recordedSucceeded[pc.name] && !recNow[pc.name]
		switch {
		case killedUnseen:
			// the controller deleted the task (e.g. pending timeout judged on a stale cache) before it
			// ever saw it succeed: from its point of view this attempt was killed.
			it.unsuccessful++
		case tr.Finished != nil && tr.Outcome == "succeed":
			it.succeeded = true
		case tr.Finished != nil || tr.Gone != nil:
			it.unsuccessful++
		default:
			it.alive++
		}
	}
	return out
}

func numIndexes(j *execution.Job) int {
	if j.Spec.Template == nil || j.Spec.Template.Parallelism == nil {
		return 1
	}
	p := j.Spec.Template.Parallelism
	switch {
	case p.WithCount != nil:
		return int(*p.WithCount)
	case len(p.WithKeys) > 0:
		return len(p.WithKeys)
	case len(p.WithMatrix) > 0:
		n := 1
		for _, v := range p.WithMatrix {
			n *= len(v)
		}
		return n
	}
	return 1
}

func strategyOf(j *execution.Job) execution.ParallelCompletionStrategy {
	if j.Spec.Template != nil && j.Spec.Template.Parallelism != nil && j.Spec.Template.Parallelism.CompletionStrategy != "" {
		return j.Spec.Template.Parallelism.CompletionStrategy
	}
	return execution.AllSuccessful
}

// decided returns ("Success"|"Failed"|"") implied by the ground truth.
func (m *fullMon) decided(j *execution.Job) string {
	truth := m.truthByIndex(string(j.UID), j)
	n := numIndexes(j)
	max := int(j.GetMaxAttempts())
	succ, exhausted := 0, 0
	for _, it := range truth {
		if it.succeeded {
			succ++
		} else if it.unsuccessful >= max {
			exhausted++
		}
	}
	switch strategyOf(j) {
	case execution.AnySuccessful:
		if succ > 0 {
			return "Success"
		}
		if exhausted >= n {
			return "Failed"
		}
	default:
		if succ >= n {
			return "Success"
		}
		if exhausted > 0 {
			return "Failed"
		}
	}
	return ""
}

// c09Refusal: the job controller gives up on a Job with an admission error. If
// the error names a Pod that exists and is controlled by this very Job, the Job
// has refused to adopt its own task (C09: never forgotten).
func (m *fullMon) c09Refusal(nj *execution.Job) {
	m.stat("mon.c09.refusals")
	msg := nj.Annotations[annAdmissionError]
	for _, p := range m.t.podsOfJob(string(nj.UID)) {
		if strings.Contains(msg, p.Name) {
			m.v("C09/own-task-refused", "%s is marked with an admission error (%q) naming Pod %s, which exists and is controlled by this Job: its own task was not adopted", fmtJob(nj), msg, p.Name)
			return
		}
	}
}

// orphanCause classifies why a Job stopped before adopting an unrecorded task.
func orphanCause(nj *execution.Job, p *corev1.Pod) string {
	switch {
	case hasAdmissionError(nj) && strings.Contains(nj.Annotations[annAdmissionError], p.Name):
		return "own task refused"
	case nj.Spec.KillTimestamp != nil:
		return "killed before adoption"
	case hasAdmissionError(nj):
		return "admission error of another task before adoption"
	}
	return "outcome decided by other tasks before adoption"
}

func (m *fullMon) c10Finish(call *APICall, oj, nj *execution.Job) {
	fin := nj.Status.Condition.Finished
	if nj.DeletionTimestamp != nil {
		return
	}
	m.stat("mon.c10.finishes")
	// no task alive at the finishing write of a Job that is not being deleted
	for _, p := range m.t.podsOfJob(string(nj.UID)) {
		if !podTerminal(p) {
			rec := "not recorded in status.tasks; " + orphanCause(nj, p)
			for _, r := range nj.Status.Tasks {
				if r.Name == p.Name {
					rec = "recorded in status.tasks"
				}
			}
			m.v("C10/finished-with-live-task", "%s reported finished (%s) while Pod %s still exists and is not finished (phase %s; %s)", fmtJob(nj), fin.Result, p.Name, p.Status.Phase, rec)
			return
		}
	}
	if nj.Spec.KillTimestamp != nil || hasAdmissionError(nj) {
		return
	}
	dec := m.decided(nj)
	switch fin.Result {
	case execution.JobResultSuccess:
		if dec != "Success" {
			m.v("C10/false-success", "%s reported Succeeded but the strategy %s is not satisfied by really succeeded tasks (truth: %s)", fmtJob(nj), strategyOf(nj), m.truthString(nj))
		}
	case execution.JobResultFailed:
		if dec != "Failed" {
			m.v("C10/false-failure", "%s reported Failed but the strategy %s can still be (or is) satisfied (truth: %s)", fmtJob(nj), strategyOf(nj), m.truthString(nj))
		}
	case execution.JobResultKilled:
		m.v("C10/killed-without-kill", "%s reported Killed although it has no kill timestamp and is not being deleted", fmtJob(nj))
	case execution.JobResultFinalStateUnknown:
		m.v("C10/unknown-result", "%s finished with result FinalStateUnknown (truth: %s)", fmtJob(nj), m.truthString(nj))
	}
}

func (m *fullMon) truthString(j *execution.Job) string {
	truth := m.truthByIndex(string(j.UID))
	var parts []string
	for _, h := range sortedKeys(truth) {
		it := truth[h]
		parts = append(parts, fmt.Sprintf("%s{created=%d succeeded=%v unsuccessful=%d alive=%d}", h, it.created, it.succeeded, it.unsuccessful, it.alive))
	}
	return fmt.Sprintf("indexes=%d maxAttempts=%d %s", numIndexes(j), j.GetMaxAttempts(), strings.Join(parts, " "))
}

// ---------------------------------------------------------------------------
// C11 (+ part of C09): every pair of successive Job versions

func (m *fullMon) c11Pair(call *APICall, verb string, oj, nj *execution.Job) {
	m.stat("mon.c11.versions")
	if oj.Status.StartTime != nil {
		if nj.Status.StartTime == nil || !nj.Status.StartTime.Equal(oj.Status.StartTime) {
			m.v("C11/start-time-changed", "%s: startTime changed from %v to %v", fmtJob(oj), oj.Status.StartTime, nj.Status.StartTime)
			return
		}
	}
	// a recorded result may change only in reaction to a user edit (kill timestamp set or
	// changed, deletion requested) that happened after that result was recorded.
	userTouched := hasAdmissionError(nj) || nj.DeletionTimestamp != nil
	if jt := m.t.jobsByUID[string(oj.UID)]; jt != nil {
		killChangedNow := (oj.Spec.KillTimestamp == nil) != (nj.Spec.KillTimestamp == nil) ||
			(oj.Spec.KillTimestamp != nil && nj.Spec.KillTimestamp != nil && !oj.Spec.KillTimestamp.Equal(nj.Spec.KillTimestamp))
		if jt.userEditSeq > jt.resultSeq || killChangedNow || (oj.DeletionTimestamp == nil && nj.DeletionTimestamp != nil) {
			userTouched = true
		}
	}
	if of := oj.Status.Condition.Finished; of != nil {
		nf := nj.Status.Condition.Finished
		if nf == nil {
			m.v("C11/unfinished", "%s was finished (%s) and became unfinished", fmtJob(oj), of.Result)
			return
		}
		if !userTouched && (nf.Result != of.Result || !nf.FinishTimestamp.Equal(&of.FinishTimestamp)) {
			m.v("C11/result-changed", "%s: finished result/time changed from %s@%s to %s@%s without user edit", fmtJob(oj), of.Result, fmtT(of.FinishTimestamp.Time), nf.Result, fmtT(nf.FinishTimestamp.Time))
			return
		}
	}
	if nj.Status.CreatedTasks < oj.Status.CreatedTasks {
		m.v("C11/created-tasks-decreased", "%s: createdTasks went from %d to %d", fmtJob(oj), oj.Status.CreatedTasks, nj.Status.CreatedTasks)
		return
	}
	newRefs := map[string]*execution.TaskRef{}
	for i := range nj.Status.Tasks {
		newRefs[nj.Status.Tasks[i].Name] = &nj.Status.Tasks[i]
	}
	for _, or := range oj.Status.Tasks {
		nr := newRefs[or.Name]
		if nr == nil {
			m.v("C09/task-forgotten", "%s: task %s disappeared from status.tasks", fmtJob(oj), or.Name)
			return
		}
		// the statement says "never cleared": an estimated time (task observed as gone) may later be
		// replaced by the real one reported by the kubelet.
		if or.RunningTimestamp != nil && nr.RunningTimestamp == nil {
			m.v("C11/running-time-cleared", "%s: task %s runningTimestamp %v was cleared", fmtJob(oj), or.Name, or.RunningTimestamp)
			return
		}
		if or.FinishTimestamp != nil && nr.FinishTimestamp == nil {
			m.v("C11/finish-time-cleared", "%s: task %s finishTimestamp %v was cleared", fmtJob(oj), or.Name, or.FinishTimestamp)
			return
		}
		if (or.RunningTimestamp != nil && !nr.RunningTimestamp.Equal(or.RunningTimestamp)) || (or.FinishTimestamp != nil && !nr.FinishTimestamp.Equal(or.FinishTimestamp)) {
			m.stat("mon.c11.task_time_revised")
		}
	}
	ctrl := ctrlOfCall(call)
	if verb != "updateStatus" || (ctrl != "job" && ctrl != "jobqueue") {
		return
	}
	if ctrl == "job" {
		oldNames := map[string]bool{}
		for _, r := range oj.Status.Tasks {
			oldNames[r.Name] = true
		}
		for _, r := range nj.Status.Tasks {
			if oldNames[r.Name] {
				continue
			}
			if po := m.w.API.Peek(ResPods, nj.Namespace, r.Name); po != nil {
				if ref := metav1.GetControllerOf(accessor(po)); ref == nil || ref.UID != nj.UID {
					m.v("C09/wrong-adoption", "%s: task %s was added to status.tasks but the Pod of that name is not controlled by this Job (controller: %v)", fmtJob(nj), r.Name, ref)
					return
				}
				m.stat("mon.c09.adoptions_or_records")
			}
		}
	}
	// C09(4): never record a task as lost/finished while its Pod exists and is not terminal.
	if ctrl == "job" {
		m.stat("mon.c09.status_checks")
		for i := range nj.Status.Tasks {
			nr := &nj.Status.Tasks[i]
			var or *execution.TaskRef
			for k := range oj.Status.Tasks {
				if oj.Status.Tasks[k].Name == nr.Name {
					or = &oj.Status.Tasks[k]
				}
			}
			newlyFinished := nr.FinishTimestamp != nil && (or == nil || or.FinishTimestamp == nil)
			if !newlyFinished && nr.Status.State != execution.TaskDeletedFinalStateUnknown {
				continue
			}
			po := m.w.API.Peek(ResPods, nj.Namespace, nr.Name)
			if po == nil {
				continue
			}
			p := po.(*corev1.Pod)
			if ref := metav1.GetControllerOf(p); ref == nil || ref.UID != nj.UID {
				continue
			}
			// the record describes the object the sync read; if that was an earlier
			// object of the same name (deleted and re-created since), it says nothing
			// about the current one
			if call != nil && call.ReadRV != nil {
				if rv := call.ReadRV["pods/"+nj.Namespace+"/"+nr.Name]; rv != "" {
					if pv := m.t.podByRV[rv]; pv != nil && pv.UID != p.UID {
						m.stat("mon.c09.record_of_earlier_incarnation")
						continue
					}
				}
			}
			if !podTerminal(p) && (newlyFinished || nr.Status.State == execution.TaskDeletedFinalStateUnknown) {
				m.v("C09/false-lost", "%s: task %s recorded as %s with finish time %v while its Pod exists and is not finished (phase %s, deletionTimestamp %v)", fmtJob(nj), nr.Name, nr.Status.State, nr.FinishTimestamp, p.Status.Phase, p.DeletionTimestamp)
				return
			}
		}
	}
	if nj.Status.State == "" {
		return
	}
	// self-consistency of a version written by a controller
	c := nj.Status.Condition
	n := 0
	var want execution.JobState
	if c.Queueing != nil {
		n++
		want = execution.JobStateQueued
	}
	if c.Waiting != nil {
		n++
		want = execution.JobStateWaiting
	}
	if c.Running != nil {
		n++
		want = execution.JobStateRunning
	}
	if c.Finished != nil {
		n++
		want = execution.JobStateFinished
	}
	if n != 1 {
		m.v("C11/condition-count", "%s: %d of the queueing/waiting/running/finished conditions are set", fmtJob(nj), n)
		return
	}
	if nj.Status.State != want {
		m.v("C11/state-mismatch", "%s: state %s but condition is %s", fmtJob(nj), nj.Status.State, want)
		return
	}
	if isTerminal(nj) != (c.Finished != nil) {
		m.v("C11/phase-mismatch", "%s: phase %s terminal=%v but finished condition set=%v", fmtJob(nj), nj.Status.Phase, isTerminal(nj), c.Finished != nil)
		return
	}
	if int(nj.Status.CreatedTasks) != len(nj.Status.Tasks) {
		m.v("C11/created-count", "%s: createdTasks=%d but %d tasks listed", fmtJob(nj), nj.Status.CreatedTasks, len(nj.Status.Tasks))
		return
	}
	running := 0
	for _, r := range nj.Status.Tasks {
		if r.RunningTimestamp != nil && r.FinishTimestamp == nil {
			running++
		}
	}
	if int(nj.Status.RunningTasks) != running {
		m.v("C11/running-count", "%s: runningTasks=%d but %d tasks are running", fmtJob(nj), nj.Status.RunningTasks, running)
		return
	}
	hasPar := nj.Spec.Template != nil && nj.Spec.Template.Parallelism != nil
	if ctrl == "job" && hasPar != (nj.Status.ParallelStatus != nil) {
		m.v("C11/parallel-status", "%s: parallelism set=%v but parallelStatus present=%v", fmtJob(nj), hasPar, nj.Status.ParallelStatus != nil)
		return
	}
}

// ---------------------------------------------------------------------------
// C15: JobConfig status monotonicity and per-write accuracy

func (m *fullMon) c15Pair(call *APICall, oc, nc *execution.JobConfig) {
	if oc.UID != nc.UID {
		return
	}
	if o, n := oc.Status.LastScheduled, nc.Status.LastScheduled; o != nil && (n == nil || n.Before(o)) {
		m.v("C15/last-scheduled-decreased", "JobConfig %s: lastScheduled went from %v to %v", oc.Name, o, n)
		return
	}
	if o, n := oc.Status.LastExecuted, nc.Status.LastExecuted; o != nil && (n == nil || n.Before(o)) {
		m.v("C15/last-executed-decreased", "JobConfig %s: lastExecuted went from %v to %v", oc.Name, o, n)
		return
	}
	if ctrlOfCall(call) != "jobconfig" {
		return
	}
	// the status being written must cover every Job the controller read in this sync
	for k, rv := range call.ReadRV {
		if !strings.HasPrefix(k, "jobs/") || rv == "" {
			continue
		}
		j := m.t.jobByRV[rv]
		if j == nil || j.Labels[labelJobConfigUID] != string(nc.UID) {
			continue
		}
		m.stat("mon.c15.jobs_seen")
		if ann, ok := j.Annotations[annScheduleTime]; ok {
			if ts, err := strconv.ParseInt(ann, 10, 64); err == nil {
				if nc.Status.LastScheduled == nil || nc.Status.LastScheduled.Unix() < ts {
					m.v("C15/last-scheduled-behind", "JobConfig %s: status written with lastScheduled %v although Job %s with schedule time %d was read", nc.Name, nc.Status.LastScheduled, j.Name, ts)
					return
				}
			}
		}
		if st := j.Status.StartTime; st != nil {
			if nc.Status.LastExecuted == nil || nc.Status.LastExecuted.Before(st) {
				m.v("C15/last-executed-behind", "JobConfig %s: status written with lastExecuted %v although Job %s started at %v was read", nc.Name, nc.Status.LastExecuted, j.Name, st)
				return
			}
		}
	}
}

// ---------------------------------------------------------------------------
// API events (after the write)

func (m *fullMon) onEvent(ev *APIEvent) {
	if ev.Res == ResJobs && ev.Type == "DELETED" {
		j := ev.Obj.(*execution.Job)
		m.stat("mon.c13.job_removals")
		for _, ref := range j.Status.Tasks {
			if po := m.w.API.Peek(ResPods, j.Namespace, ref.Name); po != nil {
				p := po.(*corev1.Pod)
				if r := metav1.GetControllerOf(p); r != nil && r.UID == j.UID {
					m.v("C13/job-gone-before-tasks", "Job %s/%s was removed from the API while its task %s still exists (phase %s, deletionTimestamp %v)", j.Namespace, j.Name, ref.Name, p.Status.Phase, p.DeletionTimestamp)
					return
				}
			}
		}
	}
}

// ---------------------------------------------------------------------------
// controller API calls (after the effect)

func (m *fullMon) onCall(c *APICall) {
	now := m.w.Sim.Now()
	if c.Ctrl == "jobqueue" {
		// causal markers for the two known residual double-fault cases of the start path
		if c.Verb == "updateStatus" && c.Res == ResJobs {
			delete(m.pendingVerify, c.Task)
			if pre, ok := c.PreObj.(*execution.Job); ok && pre != nil {
				switch c.Fault {
				case "lostack":
					if !isStarted(pre) {
						m.pendingVerify[c.Task] = c.Name
					}
				case "drop", "unavailable", "throttle":
					if isStarted(pre) {
						m.w.Sim.Note("start write for already-started Job failed with an ambiguous error (stale cache): counter kept twice")
					}
				}
			}
		} else if c.Verb == "get" && c.Res == ResJobs {
			if name, ok := m.pendingVerify[c.Task]; ok && name == c.Name && (c.Fault != "" || c.Err != nil) {
				m.w.Sim.Note("start write lost its ack and the verifying read failed as well: counter rolled back for a started Job")
			}
			delete(m.pendingVerify, c.Task)
		}
	}
	if c.Ctrl == "cron" && c.Res == ResJobs {
		// causal marker for the residual double fault of the scheduled-Job creation path
		switch c.Verb {
		case "create":
			delete(m.pendingVerify, c.Task)
			if c.Fault == "lostack" && c.Err == nil {
				m.pendingVerify[c.Task] = c.Name
			}
		case "get":
			if name, ok := m.pendingVerify[c.Task]; ok && name == c.Name && (c.Fault != "" || c.Err != nil) {
				m.w.Sim.Note("create of scheduled Job %s/%s lost its ack and the verifying read failed as well", c.NS, c.Name)
			}
			delete(m.pendingVerify, c.Task)
		}
	}
	switch {
	case c.Ctrl == "job" || c.Ctrl == "anon":
		if c.Verb == "delete" && c.Res == ResPods && c.Fault != "drop" && c.Fault != "unavailable" && c.Fault != "throttle" {
			m.c12PodDelete(c, now)
		}
		if c.Verb == "create" && c.Res == ResPods {
			// bounded create attempts per name (C09.3)
			for _, jt := range m.t.jobsByUID {
				if strings.HasPrefix(c.Name, jt.last.Name+"-") && jt.last.Namespace == c.NS {
					jt.createAttempts[c.Name]++
				}
			}
			if c.Fault != "" {
				m.stat("mon.c09.faulted_creates")
			}
		}
		if c.Verb == "delete" && c.Res == ResJobs && c.Err == nil {
			m.c13TTLDelete(c, now)
		}
	}
}

func (m *fullMon) c12PodDelete(c *APICall, now time.Time) {
	m.stat("mon.c12.deletes")
	force := c.Grace != nil && *c.Grace == 0
	if force {
		m.stat("mon.c12.force_deletes")
	}
	pre := c.PreObj
	if pre == nil {
		return // pod did not exist: NotFound
	}
	pod := pre.(*corev1.Pod)
	ref := metav1.GetControllerOf(pod)
	if ref == nil || ref.Kind != "Job" {
		m.v("C09/foreign-touched", "job controller deleted Pod %s which has no controller owner", pod.Name)
		return
	}
	var jt *jobTrack = m.t.jobsByUID[string(ref.UID)]
	if jt == nil {
		m.v("C09/foreign-touched", "job controller deleted Pod %s owned by unknown Job uid=%s", pod.Name, ref.UID)
		return
	}
	// which Job version did the controller act on? anonymous delete goroutines
	// inherit the read set of the worker that spawned them.
	rj := m.t.readJob(c, jt.last.Namespace, jt.last.Name)
	if rj == nil || string(rj.UID) != jt.uid {
		rj = jt.last
	}
	syncStart := c.SyncStart
	if syncStart.IsZero() {
		syncStart = now
	}
	truth := m.w.Kubelet.ByUID[string(pod.UID)]
	var reasons []string
	if kt := rj.Spec.KillTimestamp; kt != nil && !kt.Time.After(now) {
		reasons = append(reasons, "kill")
	}
	if ps := rj.Status.ParallelStatus; ps != nil && ps.Complete {
		reasons = append(reasons, "strategy-decided")
	}
	// the controller recomputes the parallel status inside the sync before killing leftovers
	if m.decided(rj) != "" {
		reasons = append(reasons, "strategy-decided-truth")
	}
	if m.decidedAsSeenBy(c, rj) != "" {
		reasons = append(reasons, "strategy-decided-as-seen")
	}
	if rj.DeletionTimestamp != nil {
		reasons = append(reasons, "job-deleting")
	}
	// a Job that is refused (cannot create all of its tasks) may stop the tasks it has
	// already created: they are "no longer needed" in the sense of C10. The refusal may
	// be decided in the very sync that deletes (before the annotation is persisted).
	if hasAdmissionError(rj) {
		reasons = append(reasons, "refused")
	} else if cur := m.t.jobByUID(string(rj.UID)); cur != nil && hasAdmissionError(cur) {
		reasons = append(reasons, "refused")
	} else {
		for _, o := range m.w.API.ListRaw(ResPods) {
			fp := o.(*corev1.Pod)
			if fp.Namespace == rj.Namespace && strings.HasPrefix(fp.Name, rj.Name+"-") {
				if ref := metav1.GetControllerOf(fp); ref == nil || ref.UID != rj.UID {
					reasons = append(reasons, "refused-foreign-object-on-task-name")
					break
				}
			}
		}
	}
	for _, d := range m.t.dynsSince(syncStart) {
		pt := int64(0)
		if v := d.Jobs.DefaultPendingTimeoutSeconds; v != nil {
			pt = *v
		}
		if rj.Spec.Template != nil && rj.Spec.Template.TaskPendingTimeoutSeconds != nil && *rj.Spec.Template.TaskPendingTimeoutSeconds >= 0 {
			pt = *rj.Spec.Template.TaskPendingTimeoutSeconds
		}
		// "has not begun running" is judged on the Pod version the controller read
		neverRan := truth == nil || truth.Running == nil
		if rv, ok := c.ReadRV["pods/"+pod.Namespace+"/"+pod.Name]; ok && rv != "" {
			if pv := m.t.podByRV[rv]; pv != nil && pv.UID == pod.UID {
				neverRan = true
				for _, cs := range pv.Status.ContainerStatuses {
					if (cs.State.Running != nil && !cs.State.Running.StartedAt.IsZero()) || (cs.State.Terminated != nil && !cs.State.Terminated.StartedAt.IsZero()) {
						neverRan = false
					}
				}
			}
		}
		if pt > 0 && neverRan && !now.Before(pod.CreationTimestamp.Add(time.Duration(pt)*time.Second)) {
			reasons = append(reasons, "pending-timeout")
			m.stat("mon.c12.pending_reaps")
		}
		ft := int64(0)
		if v := d.Jobs.ForceDeleteTaskTimeoutSeconds; v != nil {
			ft = *v
		}
		if force && ft > 0 && pod.DeletionTimestamp != nil && !now.Before(pod.DeletionTimestamp.Add(time.Duration(ft)*time.Second)) &&
			!(rj.Spec.Template != nil && rj.Spec.Template.ForbidTaskForceDeletion) {
			reasons = append(reasons, "force-timeout")
		}
	}
	if force {
		ok := false
		for _, r := range reasons {
			if r == "force-timeout" {
				ok = true
			}
		}
		if !ok {
			m.v("C12/unjustified-force-delete", "job controller force-deleted Pod %s of %s (pod deletionTimestamp %v, forbidForce=%v) at %s", pod.Name, fmtJob(rj), pod.DeletionTimestamp, rj.Spec.Template != nil && rj.Spec.Template.ForbidTaskForceDeletion, fmtT(now))
		}
		return
	}
	nonForce := 0
	for _, r := range reasons {
		if r != "force-timeout" {
			nonForce++
		}
	}
	if nonForce == 0 {
		m.v("C12/unjustified-delete", "job controller deleted Pod %s of %s at %s without a reason the statement allows (kill=%v, created=%s, ran=%v)", pod.Name, fmtJob(rj), fmtT(now), rj.Spec.KillTimestamp, fmtT(pod.CreationTimestamp.Time), truth != nil && truth.Running != nil)
	}
}

func (m *fullMon) c13TTLDelete(c *APICall, now time.Time) {
	pre := c.PreObj
	if pre == nil {
		return
	}
	j := pre.(*execution.Job)
	if j.DeletionTimestamp != nil {
		return // already being deleted: the call has no effect
	}
	m.stat("mon.c13.ttl_deletes")
	// The controller decides from its in-memory status, which may be one write ahead
	// of the API object. Ground truth: a Job that may be cleaned up has no live task.
	var finish time.Time
	if fin := j.Status.Condition.Finished; fin != nil {
		finish = fin.FinishTimestamp.Time
	} else {
		if !isStarted(j) && !hasAdmissionError(j) {
			m.v("C13/delete-unfinished", "job controller deleted %s which was never started and is not finished", fmtJob(j))
			return
		}
		for _, p := range m.t.podsOfJob(string(j.UID)) {
			if !podTerminal(p) {
				m.v("C13/delete-unfinished", "job controller deleted %s which is not finished (Pod %s is alive, phase %s)", fmtJob(j), p.Name, p.Status.Phase)
				return
			}
		}
		// earliest instant the controller may take as finish time: the latest true end of a task.
		for _, pc := range m.t.podCreates[string(j.UID)] {
			if tr := m.w.Kubelet.ByUID[pc.uid]; tr != nil {
				var e time.Time
				switch {
				case tr.Finished != nil:
					e = *tr.Finished
				case tr.Gone != nil:
					e = *tr.Gone
				}
				if e.After(finish) {
					finish = e
				}
			}
		}
		finish = finish.Truncate(time.Second)
		if len(m.t.podCreates[string(j.UID)]) == 0 && j.Spec.KillTimestamp != nil {
			finish = j.Spec.KillTimestamp.Time
		}
	}
	syncStart := c.SyncStart
	if syncStart.IsZero() {
		syncStart = now
	}
	ok := false
	var ttlSeen int64
	for _, d := range m.t.dynsSince(syncStart) {
		ttl := int64(0)
		if v := d.Jobs.DefaultTTLSecondsAfterFinished; v != nil {
			ttl = *v
		}
		if j.Spec.TTLSecondsAfterFinished != nil {
			ttl = *j.Spec.TTLSecondsAfterFinished
		}
		ttlSeen = ttl
		if !now.Before(finish.Add(time.Duration(ttl) * time.Second)) {
			ok = true
		}
	}
	if !ok {
		m.v("C13/ttl-early", "job controller deleted %s at %s, finished %s, effective TTL %ds", fmtJob(j), fmtT(now), fmtT(finish), ttlSeen)
	}
}

// ---------------------------------------------------------------------------
// fixpoint assertions

func (m *fullMon) fixpoint() {
	s := m.w.Sim
	now := s.Now()
	m.c07EarlyRefusedFixpoint()
	api := m.w.API
	dyn := m.w.Dyn
	for _, o := range api.ListRaw(ResJobs) {
		j := o.(*execution.Job)
		if s.stopped {
			return
		}
		uid := j.Labels[labelJobConfigUID]
		var jc *execution.JobConfig
		if uid != "" && metav1.GetControllerOf(j) != nil {
			jc = m.t.jobConfigByUID(uid)
		}
		// --- queued Jobs (C06/C07)
		if isQueued(j) && j.DeletionTimestamp == nil && !hasAdmissionError(j) && jobDue(j, now) {
			owned := metav1.GetControllerOf(j) != nil && metav1.GetControllerOf(j).Kind == "JobConfig"
			switch {
			case !owned:
				m.v("C07/never-started", "independent %s is due (startAfter %v) but still queued at fixpoint", fmtJob(j), startAfterOf(j))
			case jc == nil:
				// owner gone: the GC will delete the Job
			default:
				active := 0
				for _, x := range m.t.jobsOfConfig(uid) {
					if isActive(x) {
						active++
					}
				}
				max := int(jc.Spec.Concurrency.GetMaxConcurrency())
				switch jobPolicy(j) {
				case execution.ConcurrencyPolicyAllow, "":
					m.v("C06/allow-stuck", "%s with policy Allow is due but still queued at fixpoint (active=%d)", fmtJob(j), active)
					m.v("C07/never-started", "%s is due (startAfter %v) but still queued at fixpoint", fmtJob(j), startAfterOf(j))
				case execution.ConcurrencyPolicyForbid:
					m.v("C06/forbid-stuck", "%s with policy Forbid is neither started nor refused at fixpoint (active=%d max=%d)", fmtJob(j), active, max)
				case execution.ConcurrencyPolicyEnqueue:
					if active < max {
						m.v("C06/enqueue-stuck", "%s with policy Enqueue is due and still queued at fixpoint although only %d of %d slots are in use", fmtJob(j), active, max)
						m.v("C07/never-started", "%s is due (startAfter %v) but still queued at fixpoint with free capacity", fmtJob(j), startAfterOf(j))
					}
				}
			}
		}
		if s.stopped {
			return
		}
		// refused Forbid Jobs end in AdmissionError
		if hasAdmissionError(j) && j.DeletionTimestamp == nil && j.Status.Phase != execution.JobAdmissionError {
			m.v("C06/refused-not-terminal", "%s carries an admission error but its phase is %s at fixpoint", fmtJob(j), j.Status.Phase)
			m.v("C09/admission-error-not-terminal", "%s carries an admission error but its phase is %s at fixpoint", fmtJob(j), j.Status.Phase)
		}
		// --- tasks (C09.1, adoption)
		jt := m.t.jobsByUID[string(j.UID)]
		if jt != nil && isStarted(j) {
			inStatus := map[string]*execution.TaskRef{}
			for i := range j.Status.Tasks {
				inStatus[j.Status.Tasks[i].Name] = &j.Status.Tasks[i]
			}
			for _, name := range sortedKeys(jt.pods) {
				pc := jt.pods[name]
				ref := inStatus[name]
				if ref == nil {
					if po := api.Peek(ResPods, j.Namespace, name); po == nil || string(accessor(po).GetUID()) != pc.uid {
						continue // vanished before it could be recorded or adopted
					}
					m.v("C09/task-not-recorded", "%s: Pod %s was created for it but is not listed in status.tasks at fixpoint", fmtJob(j), name)
					break
				}
				if po := api.Peek(ResPods, j.Namespace, name); po != nil && string(accessor(po).GetUID()) == pc.uid && ref.CreationTimestamp.Unix() != pc.at.Truncate(time.Second).Unix() {
					m.v("C09/adoption-mismatch", "%s: task %s recorded with creationTimestamp %s but its Pod was created %s", fmtJob(j), name, fmtT(ref.CreationTimestamp.Time), fmtT(pc.at))
					break
				}
			}
			for name, n := range jt.createAttempts {
				if n > 40 {
					m.v("C09/unbounded-create-attempts", "%s: %d create attempts for task name %s", fmtJob(j), n, name)
				}
			}
		}
		if s.stopped {
			return
		}
		// --- decided strategy => finished with that result (C10)
		if isStarted(j) && j.DeletionTimestamp == nil && j.Spec.KillTimestamp == nil && !hasAdmissionError(j) {
			if dec := m.decided(j); dec != "" {
				fin := j.Status.Condition.Finished
				if fin == nil {
					m.v("C10/not-finished", "%s: ground truth decides %s but the Job is not finished at fixpoint (phase %s; truth %s)", fmtJob(j), dec, j.Status.Phase, m.truthString(j))
				} else if string(fin.Result) != dec {
					m.v("C10/wrong-result", "%s: ground truth decides %s but result is %s (truth %s)", fmtJob(j), dec, fin.Result, m.truthString(j))
				}
			} else if j.Status.Condition.Finished == nil {
				// undecided and unfinished at fixpoint: some task must still be alive, or the Job is stuck
				alive := 0
				for _, p := range m.t.podsOfJob(string(j.UID)) {
					if !podTerminal(p) {
						alive++
					}
				}
				if alive == 0 {
					m.v("C10/stuck", "%s is neither finished nor has any live task at fixpoint (phase %s; truth %s)", fmtJob(j), j.Status.Phase, m.truthString(j))
				}
			}
		}
		if s.stopped {
			return
		}
		// --- a finished Job that is not being deleted has no task left running unattended (C10, last clause)
		if j.Status.Condition.Finished != nil && j.DeletionTimestamp == nil {
			for _, p := range m.t.podsOfJob(string(j.UID)) {
				if podTerminal(p) || p.DeletionTimestamp != nil {
					continue // finished, or deletion requested (a dead node may never confirm it)
				}
				rec := "not recorded in status.tasks; " + orphanCause(j, p)
				for _, r := range j.Status.Tasks {
					if r.Name == p.Name {
						rec = "recorded in status.tasks"
					}
				}
				m.stat("mon.c10.fixpoint_live_checked")
				m.v("C10/finished-with-live-task", "%s is finished (%s) but Pod %s still exists at fixpoint, is not finished and its deletion was never requested (phase %s; %s)", fmtJob(j), j.Status.Condition.Finished.Result, p.Name, p.Status.Phase, rec)
				m.v("C12/finished-with-live-task", "%s is finished (%s) but Pod %s still exists at fixpoint, is not finished and its deletion was never requested (phase %s; %s)", fmtJob(j), j.Status.Condition.Finished.Result, p.Name, p.Status.Phase, rec)
				break
			}
		}
		if s.stopped {
			return
		}
		// --- kill (C12)
		if kt := j.Spec.KillTimestamp; kt != nil && !kt.Time.After(now) && isStarted(j) && j.DeletionTimestamp == nil {
			// force deletion is only demanded when it was enabled under every dynamic
			// configuration of the run (a config change does not wake Jobs up).
			forceOff := dyn.Jobs.ForceDeleteTaskTimeoutSeconds == nil || *dyn.Jobs.ForceDeleteTaskTimeoutSeconds <= 0 ||
				(j.Spec.Template != nil && j.Spec.Template.ForbidTaskForceDeletion) || len(m.t.dynHist) > 1
			stuckOK := false
			for _, p := range m.t.podsOfJob(string(j.UID)) {
				if podTerminal(p) {
					continue
				}
				tr := m.w.Kubelet.ByUID[string(p.UID)]
				deadNode := tr != nil && tr.Script.TermMs < 0 && p.Spec.NodeName != ""
				if deadNode && forceOff && p.DeletionTimestamp != nil {
					stuckOK = true
					continue
				}
				rec := "not recorded in status.tasks; " + orphanCause(j, p)
				for _, r := range j.Status.Tasks {
					if r.Name == p.Name {
						rec = "recorded in status.tasks"
					}
				}
				m.v("C12/alive-after-kill", "%s: kill timestamp %s has passed but Pod %s is still alive at fixpoint (phase %s, deletionTimestamp %v; %s)", fmtJob(j), fmtT(kt.Time), p.Name, p.Status.Phase, p.DeletionTimestamp, rec)
				break
			}
			if !s.stopped && !stuckOK && !isTerminal(j) {
				m.v("C12/not-terminal-after-kill", "%s: kill timestamp %s has passed but phase is %s at fixpoint", fmtJob(j), fmtT(kt.Time), j.Status.Phase)
			}
			if !s.stopped && isTerminal(j) && j.Status.Phase != execution.JobKilled && j.Status.Phase != execution.JobAdmissionError {
				// finished before the kill took effect is fine only if it finished before the kill timestamp
				if fin := j.Status.Condition.Finished; fin != nil && fin.FinishTimestamp.Time.After(kt.Time) && jt != nil && jt.userKillAt != nil {
					m.stat("mon.c12.finished_otherwise_after_kill")
				}
			}
		}
		if s.stopped {
			return
		}
		// --- deletion completes (C13)
		if j.DeletionTimestamp != nil {
			alive := 0
			stuckOK := true
			for _, ref := range j.Status.Tasks {
				if po := api.Peek(ResPods, j.Namespace, ref.Name); po != nil {
					p := po.(*corev1.Pod)
					if r := metav1.GetControllerOf(p); r != nil && r.UID == j.UID {
						alive++
						// a task on a dead node whose deletion was requested is as far as a
						// deleting Job has to go (the statement does not demand force deletion here)
						tr := m.w.Kubelet.ByUID[string(p.UID)]
						if !(tr != nil && tr.Script.TermMs < 0 && p.Spec.NodeName != "" && p.DeletionTimestamp != nil) {
							stuckOK = false
						}
					}
				}
			}
			if alive == 0 {
				m.v("C13/deletion-stuck", "%s has a deletionTimestamp, all its tasks are gone, but it still exists at fixpoint (finalizers %v)", fmtJob(j), j.Finalizers)
			} else if !stuckOK {
				m.v("C13/tasks-not-removed", "%s is being deleted but %d of its tasks still exist at fixpoint", fmtJob(j), alive)
			}
		}
		if s.stopped {
			return
		}
		// --- TTL (C13)
		if fin := j.Status.Condition.Finished; fin != nil && j.DeletionTimestamp == nil {
			ttl := int64(0)
			if v := dyn.Jobs.DefaultTTLSecondsAfterFinished; v != nil {
				ttl = *v
			}
			if j.Spec.TTLSecondsAfterFinished != nil {
				ttl = *j.Spec.TTLSecondsAfterFinished
			}
			if !now.Before(fin.FinishTimestamp.Add(time.Duration(ttl)*time.Second + 2*time.Second)) {
				m.v("C13/ttl-not-deleted", "%s finished %s with effective TTL %ds but still exists at fixpoint (%s)", fmtJob(j), fmtT(fin.FinishTimestamp.Time), ttl, fmtT(now))
			}
		}
	}
	if s.stopped {
		return
	}
	// --- tasks that ignore deletion are force-deleted after the timeout (C12), for Jobs that are not being deleted
	if ft := dyn.Jobs.ForceDeleteTaskTimeoutSeconds; ft != nil && *ft > 0 && len(m.t.dynHist) == 1 {
		for _, o := range api.ListRaw(ResPods) {
			p := o.(*corev1.Pod)
			if p.DeletionTimestamp == nil || podTerminal(p) {
				continue
			}
			ref := metav1.GetControllerOf(p)
			if ref == nil || ref.Kind != "Job" {
				continue
			}
			j := m.t.jobByUID(string(ref.UID))
			if j == nil || j.DeletionTimestamp != nil || (j.Spec.Template != nil && j.Spec.Template.ForbidTaskForceDeletion) {
				continue
			}
			byCtrl := false
			for _, ev := range api.log[ResPods] {
				if ev.Key == p.Namespace+"/"+p.Name && ev.Verb == "delete" && (strings.Contains(ev.Actor, "/job/") || strings.HasPrefix(ev.Actor, "anon:")) {
					byCtrl = true
				}
			}
			if byCtrl && !now.Before(p.DeletionTimestamp.Add(time.Duration(*ft)*time.Second+2*time.Second)) {
				m.v("C12/not-force-deleted", "Pod %s of %s ignores its deletion (deletionTimestamp %s), force deletion is enabled (%ds) and not forbidden, but it still exists at fixpoint (%s)", p.Name, fmtJob(j), fmtT(p.DeletionTimestamp.Time), *ft, fmtT(now))
				break
			}
		}
	}
	if s.stopped {
		return
	}
	// --- foreign pods untouched (C09.3)
	for _, ev := range api.log[ResPods] {
		if ev.Type == "DELETED" || ev.Verb == "delete" {
			if key, ok := m.w.foreignUIDs[string(accessor(ev.Obj).GetUID())]; ok && (strings.Contains(ev.Actor, "/job/") || strings.HasPrefix(ev.Actor, "anon:")) {
				m.v("C09/foreign-touched", "foreign Pod %s was deleted by the job controller (%s)", key, ev.Actor)
				break
			}
		}
	}
	for uid, key := range m.w.foreignUIDs {
		m.stat("mon.c09.foreign")
		ns, name := splitKey(key)
		po := api.Peek(ResPods, ns, name)
		if po == nil || string(accessor(po).GetUID()) != uid {
			continue
		}
		// the Job whose task name is occupied must end in AdmissionError rather than retry forever
		for _, o := range api.ListRaw(ResJobs) {
			j := o.(*execution.Job)
			if j.Namespace == ns && strings.HasPrefix(name, j.Name+"-") && isStarted(j) && j.DeletionTimestamp == nil && j.Spec.KillTimestamp == nil {
				if j.Status.Phase != execution.JobAdmissionError {
					m.v("C09/foreign-not-admission-error", "%s: its task name %s is occupied by a Pod that does not belong to it, but the Job is in phase %s instead of AdmissionError at fixpoint", fmtJob(j), name, j.Status.Phase)
				}
			}
		}
	}
	// --- JobConfig status (C15)
	for _, o := range api.ListRaw(ResJobConfigs) {
		if s.stopped {
			return
		}
		jc := o.(*execution.JobConfig)
		if jc.DeletionTimestamp != nil {
			continue
		}
		m.stat("mon.c15.fixpoint_jcs")
		var queued, active []string
		var maxSched, maxStart int64
		for _, j := range m.t.jobsOfConfig(string(jc.UID)) {
			id := j.Name + "/" + string(j.UID)
			if isQueued(j) {
				queued = append(queued, id)
			}
			if isActive(j) {
				active = append(active, id)
			}
			if ann, ok := j.Annotations[annScheduleTime]; ok {
				if ts, err := strconv.ParseInt(ann, 10, 64); err == nil && ts > maxSched {
					maxSched = ts
				}
			}
			if st := j.Status.StartTime; st != nil && st.Unix() > maxStart {
				maxStart = st.Unix()
			}
		}
		sort.Strings(queued)
		sort.Strings(active)
		refs := func(rs []execution.JobReference) []string {
			var out []string
			for _, r := range rs {
				out = append(out, r.Name+"/"+string(r.UID))
			}
			sort.Strings(out)
			return out
		}
		if got := refs(jc.Status.QueuedJobs); strings.Join(got, ",") != strings.Join(queued, ",") || int(jc.Status.Queued) != len(queued) {
			m.v("C15/queued-mismatch", "JobConfig %s: status lists queued=%v (count %d) but the queued Jobs are %v", jc.Name, got, jc.Status.Queued, queued)
			continue
		}
		if got := refs(jc.Status.ActiveJobs); strings.Join(got, ",") != strings.Join(active, ",") || int(jc.Status.Active) != len(active) {
			m.v("C15/active-mismatch", "JobConfig %s: status lists active=%v (count %d) but the active Jobs are %v", jc.Name, got, jc.Status.Active, active)
			continue
		}
		want := execution.JobConfigReady
		switch {
		case len(active) > 0:
			want = execution.JobConfigExecuting
		case len(queued) > 0:
			want = execution.JobConfigJobQueued
		case jc.Spec.Schedule != nil && jc.Spec.Schedule.Cron != nil && jc.Spec.Schedule.Disabled:
			want = execution.JobConfigReadyDisabled
		case jc.Spec.Schedule != nil && jc.Spec.Schedule.Cron != nil:
			want = execution.JobConfigReadyEnabled
		}
		if jc.Status.State != want {
			m.v("C15/state", "JobConfig %s: state %q, expected %q (active=%d queued=%d)", jc.Name, jc.Status.State, want, len(active), len(queued))
			continue
		}
		if maxSched > 0 && (jc.Status.LastScheduled == nil || jc.Status.LastScheduled.Unix() < maxSched) {
			m.v("C15/last-scheduled-behind", "JobConfig %s: lastScheduled %v is behind the latest schedule time %d of its existing Jobs", jc.Name, jc.Status.LastScheduled, maxSched)
			continue
		}
		if maxStart > 0 && (jc.Status.LastExecuted == nil || jc.Status.LastExecuted.Unix() < maxStart) {
			m.v("C15/last-executed-behind", "JobConfig %s: lastExecuted %v is behind the latest start time %d of its existing Jobs", jc.Name, jc.Status.LastExecuted, maxStart)
			continue
		}
	}
	// counter vs truth (recorded, judged through the saturation phase)
	if p := m.w.controller(); p != nil && p.store != nil {
		for _, o := range api.ListRaw(ResJobConfigs) {
			jc := o.(*execution.JobConfig)
			truth := 0
			for _, j := range m.t.jobsOfConfig(string(jc.UID)) {
				if isActive(j) {
					truth++
				}
			}
			if got := p.store.CountActiveJobsForConfig(jc); int(got) != truth {
				m.stat("probe.counter_mismatch_at_fixpoint")
				s.Tracef("  COUNTER %s: store=%d truth=%d", jc.Name, got, truth)
			}
		}
	}
}

func startAfterOf(j *execution.Job) interface{} {
	if j.Spec.StartPolicy == nil || j.Spec.StartPolicy.StartAfter == nil {
		return "unset"
	}
	return fmtT(j.Spec.StartPolicy.StartAfter.Time)
}
