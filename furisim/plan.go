package furisim

// Plan is the fully materialised scenario of one simulated run. It is drawn
// from the seed before the bubble starts, recorded in replay files and is the
// unit the shrinker works on.
type Plan struct {
	Preset      string         `json:"preset"`
	Property    string         `json:"property"`
	Seed        int64          `json:"seed"`
	EpochUnix   int64          `json:"epochUnix"`
	DurationSec int            `json:"durationSec"`
	DrainSec    int            `json:"drainSec"`
	Dyn         DynPlan        `json:"dyn"`
	Proc        ProcOpts       `json:"proc"`
	Sched       SchedOpts      `json:"sched"`
	TickJitter  []int          `json:"tickJitterMs,omitempty"`
	JobConfigs  []JobConfigPlan `json:"jobConfigs,omitempty"`
	Jobs        []JobPlan      `json:"jobs,omitempty"`
	Ops         []UserOp       `json:"ops,omitempty"`
	PodScripts  []PodScript    `json:"podScripts,omitempty"`
	PodOverride map[string]PodScript `json:"podOverride,omitempty"`
	ForeignPods []ForeignPod   `json:"foreignPods,omitempty"`
	Faults      []FaultWindow  `json:"faults,omitempty"`
	Pinned      []PinnedFault  `json:"pinned,omitempty"`
	Crashes     []CrashPlan    `json:"crashes,omitempty"`
	Lags        []LagPlan      `json:"lags,omitempty"`
	Relists     []RelistPlan   `json:"relists,omitempty"`
	GCDelayMs   int            `json:"gcDelayMs,omitempty"`
	Webhook     bool           `json:"webhook,omitempty"`
	NoFaults    bool           `json:"noFaults,omitempty"`
	Saturate    bool           `json:"saturate,omitempty"`
	CronDupPm   int            `json:"cronDupPm,omitempty"`
	WebhookDown []LagPlan      `json:"webhookDown,omitempty"` // windows in which the admission webhooks are unreachable
	Config      *ConfigPlan    `json:"config,omitempty"`
	Twin        bool           `json:"twin,omitempty"`
}

type SchedOpts struct {
	Mode     string `json:"mode"`
	FifoBias int    `json:"fifoBias,omitempty"`
	StallPm  int    `json:"stallPm,omitempty"`
	APILatencyUs int `json:"apiLatencyUs,omitempty"`
}

type DynPlan struct {
	MaxMissedSchedules    *int64  `json:"maxMissedSchedules,omitempty"`
	MaxDowntimeSec        int64   `json:"maxDowntimeSec,omitempty"`
	DefaultTimezone       *string `json:"defaultTimezone,omitempty"`
	CronFormat            string  `json:"cronFormat,omitempty"`
	HashNames             *bool   `json:"hashNames,omitempty"`
	HashSecondsByDefault  *bool   `json:"hashSecondsByDefault,omitempty"`
	HashFields            *bool   `json:"hashFields,omitempty"`
	DefaultTTLSec         *int64  `json:"defaultTTLSec,omitempty"`
	DefaultPendingSec     *int64  `json:"defaultPendingSec,omitempty"`
	ForceDeleteSec        *int64  `json:"forceDeleteSec,omitempty"`
	MaxEnqueuedJobs       *int64  `json:"maxEnqueuedJobs,omitempty"`
}

type JobConfigPlan struct {
	NS             string   `json:"ns"`
	Name           string   `json:"name"`
	Cron           []string `json:"cron,omitempty"`
	Timezone       string   `json:"tz,omitempty"`
	Disabled       bool     `json:"disabled,omitempty"`
	NoSchedule     bool     `json:"noSchedule,omitempty"`
	NotBefore      *int64   `json:"notBefore,omitempty"`
	NotAfter       *int64   `json:"notAfter,omitempty"`
	Policy         string   `json:"policy,omitempty"`
	MaxConcurrency *int64   `json:"maxConcurrency,omitempty"`
	LastScheduled  *int64   `json:"lastScheduled,omitempty"` // persisted status (restart scenarios)
	LastUpdated    *int64   `json:"lastUpdated,omitempty"`
	CreatedBefore  int64    `json:"createdBeforeSec,omitempty"` // creationTimestamp = epoch - this
	TemplateLabels      map[string]string `json:"templateLabels,omitempty"`
	TemplateAnnotations map[string]string `json:"templateAnnotations,omitempty"`
	Template       JobTemplatePlan `json:"template"`
}

type JobTemplatePlan struct {
	Count          int                 `json:"count,omitempty"`
	Keys           []string            `json:"keys,omitempty"`
	Matrix         map[string][]string `json:"matrix,omitempty"`
	Strategy       string              `json:"strategy,omitempty"`
	MaxAttempts    int64               `json:"maxAttempts,omitempty"`
	RetryDelaySec  int64               `json:"retryDelaySec,omitempty"`
	PendingSec     *int64              `json:"pendingSec,omitempty"`
	ForbidForce    bool                `json:"forbidForce,omitempty"`
	TTLSec         *int64              `json:"ttlSec,omitempty"`
	GraceSec       *int64              `json:"graceSec,omitempty"`
}

type JobPlan struct {
	NS          string           `json:"ns"`
	Name        string           `json:"name"`
	ConfigName  string           `json:"configName,omitempty"`
	Policy      string           `json:"policy,omitempty"`
	StartAfter  *int64           `json:"startAfterMs,omitempty"` // offset from creation
	Template    *JobTemplatePlan `json:"template,omitempty"`
	TTLSec      *int64           `json:"ttlSec,omitempty"`
}

// UserOp is one timed operation of the simulated user.
type UserOp struct {
	AtMs   int64          `json:"atMs"`
	Kind   string         `json:"kind"`
	NS     string         `json:"ns,omitempty"`
	Name   string         `json:"name,omitempty"`
	JC     *JobConfigPlan `json:"jc,omitempty"`
	Job    *JobPlan       `json:"job,omitempty"`
	Cron   []string       `json:"cron,omitempty"`
	TZ     *string        `json:"tz,omitempty"`
	Bool   bool           `json:"bool,omitempty"`
	OffMs  int64          `json:"offMs,omitempty"`
	Dyn    *DynPlan       `json:"dyn,omitempty"`
	NotBefore *int64      `json:"notBefore,omitempty"`
	NotAfter  *int64      `json:"notAfter,omitempty"`
	ClearConstraints bool `json:"clearConstraints,omitempty"`
}

// PodScript is the behaviour of the simulated kubelet for one Pod.
type PodScript struct {
	ScheduleMs int64  `json:"scheduleMs"` // delay until scheduled; <0 never
	RunMs      int64  `json:"runMs"`      // delay from scheduled until running; <0 never
	FinishMs   int64  `json:"finishMs"`   // delay from running until terminal; <0 never
	Outcome    string `json:"outcome"`    // succeed, fail, oom, deadline
	TermMs     int64  `json:"termMs"`     // delay from deletionTimestamp set until gone; <0 never (dead node)
	EvictMs    int64  `json:"evictMs,omitempty"` // >0: Pod disappears this long after creation
	Flap       bool   `json:"flap,omitempty"`    // temporarily drop container statuses while running
}

type ForeignPod struct {
	NS       string `json:"ns"`
	Name     string `json:"name"`
	OwnerJob string `json:"ownerJob,omitempty"` // name of another job used as controller owner ("" = no owner)
	AtMs     int64  `json:"atMs"`
}

type FaultWindow struct {
	StartMs    int64    `json:"startMs"`
	EndMs      int64    `json:"endMs"`
	DropPm     int      `json:"dropPm,omitempty"`
	LostAckPm  int      `json:"lostAckPm,omitempty"`
	ConflictPm int      `json:"conflictPm,omitempty"`
	Ctrl       []string `json:"ctrl,omitempty"`
}

type PinnedFault struct {
	Ctrl  string `json:"ctrl,omitempty"`
	Verb  string `json:"verb,omitempty"`
	Res   string `json:"res,omitempty"`
	KindN int    `json:"kindN,omitempty"` // n-th call of (ctrl,verb,res); 0 = use N
	N     int    `json:"n,omitempty"`     // n-th API call overall
	AfterMs int64 `json:"afterMs,omitempty"` // >0: the first matching call at or after this plan time (instead of a count)
	Fault string `json:"fault"`           // drop, lostack, conflict, crash-before, crash-after
	RestartMs int64 `json:"restartMs,omitempty"`
}

type CrashPlan struct {
	AtMs   int64 `json:"atMs"`
	DownMs int64 `json:"downMs"`
}

type LagPlan struct {
	AtMs  int64  `json:"atMs"`
	DurMs int64  `json:"durMs"`
	Res   string `json:"res"`
}

type RelistPlan struct {
	AtMs int64  `json:"atMs"`
	Res  string `json:"res"`
}
