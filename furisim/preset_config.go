package furisim

import (
	"context"
	"encoding/base64"
	"encoding/json"
	"fmt"
	"math/rand"
	"sort"
	"strings"
	"testing/synctest"
	"time"

	corev1 "k8s.io/api/core/v1"
	metav1 "k8s.io/apimachinery/pkg/apis/meta/v1"
	"k8s.io/apimachinery/pkg/runtime"
	"k8s.io/client-go/kubernetes/fake"

	configv1alpha1 "github.com/furiko-io/furiko/apis/config/v1alpha1"
	"github.com/furiko-io/furiko/pkg/runtime/configloader"
	"github.com/furiko-io/furiko/pkg/runtime/controllercontext"
)

// config: the real ConfigManager + DefaultsLoader + ConfigMapLoader +
// SecretLoader with the real client-go informers they create, over the fake
// clientset's object tracker, inside the virtual-time bubble (C19).

// ConfigPlan is the scenario of the `config` preset.
type ConfigPlan struct {
	Defaults map[string]map[string]interface{} `json:"defaults"` // configName -> field -> value
	Events   []ConfigEvent                     `json:"events"`
}

type ConfigEvent struct {
	Source string `json:"source"` // cm | secret
	Op     string `json:"op"`     // set | delete | resync
	// Keys: configName (or extra key) -> content
	Keys []ConfigKey `json:"keys,omitempty"`
}

type ConfigKey struct {
	Name   string                 `json:"name"`
	Fields map[string]interface{} `json:"fields,omitempty"`
	Format string                 `json:"format"` // yaml | json | raw
	Raw    string                 `json:"raw,omitempty"`
	BadB64 bool                   `json:"badB64,omitempty"`
}

func init() {
	presets["config"] = &presetDef{
		setup:      runConfigPlan,
		finish:     func(w *World) {},
		nonTrivial: func(w *World) bool { return w.Sim.Stats["mon.c19.compared"] > 3 && w.Sim.Stats["mon.c19.layers_differ"] > 0 },
		generate:   genConfig,
	}
}

var configFields = map[string][]struct {
	name string
	kind string // pint, pbool, pstring, string, int
}{
	"jobs":       {{"defaultTTLSecondsAfterFinished", "pint"}, {"defaultPendingTimeoutSeconds", "pint"}, {"forceDeleteTaskTimeoutSeconds", "pint"}},
	"jobConfigs": {{"maxEnqueuedJobs", "pint"}},
	"cron": {{"cronFormat", "string"}, {"cronHashNames", "pbool"}, {"cronHashSecondsByDefault", "pbool"}, {"cronHashFields", "pbool"},
		{"defaultTimezone", "pstring"}, {"maxMissedSchedules", "pint"}, {"maxDowntimeThresholdSeconds", "int"}},
}

var configNames = []string{"jobs", "jobConfigs", "cron"}

func cfgFieldKind(cfg, field string) string {
	for _, f := range configFields[cfg] {
		if f.name == field {
			return f.kind
		}
	}
	return ""
}

func renderKey(k *ConfigKey) string {
	switch k.Format {
	case "raw":
		return k.Raw
	case "json":
		b, _ := json.Marshal(k.Fields)
		return string(b)
	default:
		var sb strings.Builder
		names := make([]string, 0, len(k.Fields))
		for n := range k.Fields {
			names = append(names, n)
		}
		sort.Strings(names)
		if len(names) == 0 {
			return "{}"
		}
		for _, n := range names {
			b, _ := json.Marshal(k.Fields[n])
			fmt.Fprintf(&sb, "%s: %s\n", n, string(b))
		}
		return sb.String()
	}
}

// keyParses reports whether the oracle considers the key's content parseable
// (a YAML/JSON mapping). Raw contents are generated with a known verdict.
func keyParses(k *ConfigKey) bool {
	if k.Format == "raw" {
		return strings.HasPrefix(k.Raw, "OK:")
	}
	return true
}

// typeOK reports whether value v can be decoded into a field of kind.
func typeOK(kind string, v interface{}) bool {
	switch kind {
	case "pint", "int":
		switch x := v.(type) {
		case float64, int, int64:
			_ = x
			return true
		}
		return false
	case "pbool":
		_, ok := v.(bool)
		return ok
	case "pstring", "string":
		_, ok := v.(string)
		return ok
	}
	return true
}

func asInt(v interface{}) int64 {
	switch x := v.(type) {
	case float64:
		return int64(x)
	case int:
		return int64(x)
	case int64:
		return x
	}
	return 0
}

// observed flattens the typed configs returned by the manager.
func observedConfig(cfgs controllercontext.Configs, name string) (map[string]interface{}, error) {
	out := map[string]interface{}{}
	switch name {
	case "jobs":
		c, err := cfgs.Jobs()
		if err != nil {
			return nil, err
		}
		put := func(k string, p *int64) {
			if p != nil {
				out[k] = *p
			}
		}
		put("defaultTTLSecondsAfterFinished", c.DefaultTTLSecondsAfterFinished)
		put("defaultPendingTimeoutSeconds", c.DefaultPendingTimeoutSeconds)
		put("forceDeleteTaskTimeoutSeconds", c.ForceDeleteTaskTimeoutSeconds)
	case "jobConfigs":
		c, err := cfgs.JobConfigs()
		if err != nil {
			return nil, err
		}
		if c.MaxEnqueuedJobs != nil {
			out["maxEnqueuedJobs"] = *c.MaxEnqueuedJobs
		}
	case "cron":
		c, err := cfgs.Cron()
		if err != nil {
			return nil, err
		}
		out["cronFormat"] = c.CronFormat
		if c.CronHashNames != nil {
			out["cronHashNames"] = *c.CronHashNames
		}
		if c.CronHashSecondsByDefault != nil {
			out["cronHashSecondsByDefault"] = *c.CronHashSecondsByDefault
		}
		if c.CronHashFields != nil {
			out["cronHashFields"] = *c.CronHashFields
		}
		if c.DefaultTimezone != nil {
			out["defaultTimezone"] = *c.DefaultTimezone
		}
		if c.MaxMissedSchedules != nil {
			out["maxMissedSchedules"] = *c.MaxMissedSchedules
		}
		out["maxDowntimeThresholdSeconds"] = c.MaxDowntimeThresholdSeconds
	}
	return out, nil
}

func normalise(kind string, v interface{}) interface{} {
	switch kind {
	case "pint", "int":
		return asInt(v)
	}
	return v
}

func runConfigPlan(w *World) {
	s := w.Sim
	cp := w.Plan.Config
	ctx, cancel := context.WithCancel(context.Background())
	defer cancel()
	client := fake.NewSimpleClientset()
	const ns, cmName, secName = "furiko-system", "execution-dynamic-config", "execution-dynamic-config"

	mgr := configloader.NewConfigManager()
	dl := configloader.NewDefaultsLoader()
	dl.Defaults = map[configv1alpha1.ConfigName]runtime.Object{}
	// build typed defaults from the plan
	jobsD := &configv1alpha1.JobExecutionConfig{}
	jcD := &configv1alpha1.JobConfigExecutionConfig{}
	cronD := &configv1alpha1.CronExecutionConfig{}
	mustDecode := func(m map[string]interface{}, out interface{}) {
		b, _ := json.Marshal(m)
		if err := json.Unmarshal(b, out); err != nil {
			panic(err)
		}
	}
	mustDecode(cp.Defaults["jobs"], jobsD)
	mustDecode(cp.Defaults["jobConfigs"], jcD)
	mustDecode(cp.Defaults["cron"], cronD)
	dl.Defaults[configv1alpha1.JobExecutionConfigName] = jobsD
	dl.Defaults[configv1alpha1.JobConfigExecutionConfigName] = jcD
	dl.Defaults[configv1alpha1.CronExecutionConfigName] = cronD
	mgr.AddConfigLoaders(dl, configloader.NewConfigMapLoader(client, ns, cmName), configloader.NewSecretLoader(client, ns, secName))
	cfgs := controllercontext.NewContextConfigs(mgr)
	if err := cfgs.Start(ctx); err != nil {
		s.Violate("C19/start", "config manager failed to start: %v", err)
		return
	}
	synctest.Wait()

	// reference model
	lastGood := map[string]map[string]map[string]interface{}{"cm": nil, "secret": nil} // source -> configName -> fields
	lastServed := map[string]map[string]interface{}{}                                   // configName -> flattened typed value last served
	exists := map[string]bool{}

	check := func(step int, what string) {
		for _, name := range configNames {
			// expected merged map: defaults <- cm <- secret, field by field (presence, not truthiness)
			exp := map[string]interface{}{}
			for k, v := range cp.Defaults[name] {
				exp[k] = v
			}
			layers := 0
			for _, src := range []string{"cm", "secret"} {
				if lg := lastGood[src]; lg != nil {
					if fields, ok := lg[name]; ok {
						for k, v := range fields {
							exp[k] = v
							layers++
						}
					}
				}
			}
			if layers > 0 {
				s.Stats["mon.c19.layers_differ"]++
			}
			// does the merged map decode into the typed struct?
			decodes := true
			for k, v := range exp {
				if kind := cfgFieldKind(name, k); kind != "" && !typeOK(kind, v) {
					decodes = false
				}
			}
			got, err := observedConfig(cfgs, name)
			s.Stats["mon.c19.compared"]++
			var want map[string]interface{}
			if decodes {
				want = map[string]interface{}{}
				for k, v := range exp {
					kind := cfgFieldKind(name, k)
					if kind == "" {
						continue
					}
					want[k] = normalise(kind, v)
				}
				// non-pointer fields are always present in the flattened view
				for _, f := range configFields[name] {
					if _, ok := want[f.name]; !ok {
						switch f.kind {
						case "string":
							want[f.name] = ""
						case "int":
							want[f.name] = int64(0)
						}
					}
				}
			} else {
				s.Stats["mon.c19.undecodable"]++
				want = lastServed[name]
				if want == nil {
					// nothing good was ever served: an error is acceptable
					if err != nil {
						continue
					}
				}
			}
			if err != nil {
				s.Violate("C19/error", "after event %d (%s): reading %s returned an error although a good configuration exists: %v", step, what, name, err)
				return
			}
			if want != nil {
				wb, _ := json.Marshal(want)
				gb, _ := json.Marshal(got)
				if string(wb) != string(gb) {
					s.Violate("C19/mismatch", "after event %d (%s): effective %s config is %s, expected %s", step, what, name, gb, wb)
					return
				}
			}
			lastServed[name] = got
		}
	}
	check(0, "start")
	for i := range cp.Events {
		if s.stopped {
			return
		}
		ev := &cp.Events[i]
		s.Steps++
		what := fmt.Sprintf("%s %s", ev.Op, ev.Source)
		s.Tracef("event %d: %s", i+1, what)
		s.sig(what)
		for k := range ev.Keys {
			s.sig(ev.Keys[k].Name, renderKey(&ev.Keys[k]))
		}
		switch ev.Op {
		case "set":
			allParse := true
			fields := map[string]map[string]interface{}{}
			data := map[string]string{}
			badB64 := false
			for k := range ev.Keys {
				key := &ev.Keys[k]
				content := renderKey(key)
				data[key.Name] = content
				s.Tracef("   key %s (%s): %q", key.Name, key.Format, content)
				if !keyParses(key) {
					allParse = false
					s.Faults["config.malformed"]++
				}
				if key.BadB64 {
					badB64 = true
				}
				if key.Format != "raw" {
					fields[key.Name] = key.Fields
				} else if keyParses(key) {
					fields[key.Name] = map[string]interface{}{}
				}
			}
			var err error
			if ev.Source == "cm" {
				cm := &corev1.ConfigMap{ObjectMeta: metav1.ObjectMeta{Namespace: ns, Name: cmName}, Data: data}
				if exists["cm"] {
					_, err = client.CoreV1().ConfigMaps(ns).Update(ctx, cm, metav1.UpdateOptions{})
				} else {
					_, err = client.CoreV1().ConfigMaps(ns).Create(ctx, cm, metav1.CreateOptions{})
				}
				exists["cm"] = true
			} else {
				sd := map[string][]byte{}
				for k, v := range data {
					enc := base64.StdEncoding.EncodeToString([]byte(v))
					if badB64 {
						enc = "%%%not-base64%%%"
						s.Faults["config.bad_base64"]++
					}
					sd[k] = []byte(enc)
				}
				sec := &corev1.Secret{ObjectMeta: metav1.ObjectMeta{Namespace: ns, Name: secName}, Data: sd}
				if exists["secret"] {
					_, err = client.CoreV1().Secrets(ns).Update(ctx, sec, metav1.UpdateOptions{})
				} else {
					_, err = client.CoreV1().Secrets(ns).Create(ctx, sec, metav1.CreateOptions{})
				}
				exists["secret"] = true
				if badB64 {
					allParse = false
				}
			}
			if err != nil {
				panic(err)
			}
			if allParse {
				lastGood[ev.Source] = fields
			}
		case "delete":
			if exists[ev.Source] {
				if ev.Source == "cm" {
					_ = client.CoreV1().ConfigMaps(ns).Delete(ctx, cmName, metav1.DeleteOptions{})
				} else {
					_ = client.CoreV1().Secrets(ns).Delete(ctx, secName, metav1.DeleteOptions{})
				}
				exists[ev.Source] = false
				s.Faults["config.source_deleted"]++
			}
		case "resync":
			time.Sleep(11 * time.Minute)
			s.Faults["watch.resync"]++
		}
		synctest.Wait()
		time.Sleep(50 * time.Millisecond)
		synctest.Wait()
		check(i+1, what)
	}
}

// ---------------------------------------------------------------------------

func genConfig(seed int64, property string) *Plan {
	r := rand.New(rand.NewSource(seed))
	p := &Plan{Preset: "config", Property: property, Seed: seed, EpochUnix: 1700000000, DurationSec: 0}
	cp := &ConfigPlan{Defaults: map[string]map[string]interface{}{}}
	p.Config = cp
	val := func(kind string, zeroOK bool) interface{} {
		switch kind {
		case "pint", "int":
			if zeroOK && r.Intn(3) == 0 {
				return 0
			}
			return []int{1, 7, 30, 3600}[r.Intn(4)]
		case "pbool":
			return r.Intn(2) == 0
		default:
			if zeroOK && r.Intn(3) == 0 {
				return ""
			}
			return []string{"standard", "quartz", "Asia/Singapore", "UTC"}[r.Intn(4)]
		}
	}
	for _, name := range configNames {
		d := map[string]interface{}{}
		for _, f := range configFields[name] {
			if r.Intn(4) > 0 {
				d[f.name] = val(f.kind, true)
			}
		}
		cp.Defaults[name] = d
	}
	n := 5 + r.Intn(30)
	for i := 0; i < n; i++ {
		ev := ConfigEvent{Source: []string{"cm", "secret"}[r.Intn(2)]}
		switch x := r.Intn(20); {
		case x == 0:
			ev.Op = "delete"
		case x == 1:
			ev.Op = "resync"
		default:
			ev.Op = "set"
			for _, name := range configNames {
				if r.Intn(3) == 0 {
					continue
				}
				key := ConfigKey{Name: name, Format: []string{"yaml", "json"}[r.Intn(2)], Fields: map[string]interface{}{}}
				for _, f := range configFields[name] {
					switch r.Intn(5) {
					case 0, 1: // absent
					case 2:
						key.Fields[f.name] = val(f.kind, true)
					case 3:
						// explicit zero value
						switch f.kind {
						case "pint", "int":
							key.Fields[f.name] = 0
						case "pbool":
							key.Fields[f.name] = false
						default:
							key.Fields[f.name] = ""
						}
					default:
						key.Fields[f.name] = val(f.kind, false)
					}
				}
				if r.Intn(12) == 0 {
					key.Fields["unknownKey"] = "ignored"
				}
				switch r.Intn(14) {
				case 0: // syntax error in this key
					key.Format, key.Raw, key.Fields = "raw", "{ this is: [not valid", nil
				case 1: // wrong type for one field
					fs := configFields[name]
					f := fs[r.Intn(len(fs))]
					switch f.kind {
					case "pint", "int":
						key.Fields[f.name] = "not-a-number"
					case "pbool":
						key.Fields[f.name] = "maybe"
					default:
						key.Fields[f.name] = 12345
					}
				case 2:
					key.Format, key.Raw, key.Fields = "raw", "OK:", nil
					key.Raw = "OK:"
					key.Format = "yaml"
					key.Fields = map[string]interface{}{}
				}
				ev.Keys = append(ev.Keys, key)
			}
			if r.Intn(10) == 0 {
				ev.Keys = append(ev.Keys, ConfigKey{Name: "_readme", Format: "raw", Raw: "OK: just a note"})
			}
			if ev.Source == "secret" && r.Intn(12) == 0 && len(ev.Keys) > 0 {
				ev.Keys[0].BadB64 = true
			}
		}
		cp.Events = append(cp.Events, ev)
	}
	return p
}
