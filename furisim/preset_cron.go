package furisim

import (
	"fmt"
	"math/rand"
	"strings"
	"time"

	"k8s.io/apimachinery/pkg/runtime"

	execution "github.com/furiko-io/furiko/apis/execution/v1alpha1"
)

// cron-tick: real ticker + CronWorker + heap + enqueue handler against the
// simulated clock and informer; no Jobs are created.

func init() {
	presets["cron-tick"] = &presetDef{
		setup:      setupCronTick,
		finish:     func(w *World) {},
		nonTrivial: func(w *World) bool { return w.Sim.Stats["cron.enqueue"] > 0 && w.Sim.Stats["probe.cron_complete_checked"] > 0 },
		generate:   genCronTick,
	}
}

func setupCronTick(w *World) {
	m := newCronMon(w)
	w.onTickerRead = m.noteTickerRead
	if w.Plan.Webhook {
		w.startWebhooks()
	}
	w.seedObjects()
	// status recorder: models the JobConfig controller persisting lastScheduled.
	lag := time.Duration(w.Plan.GCDelayMs) * time.Millisecond
	if lag <= 0 {
		lag = 300 * time.Millisecond
	}
	w.onEnqueue = append(w.onEnqueue, func(p *Proc, jc *execution.JobConfig, t time.Time) {
		ns, name, uid := jc.Namespace, jc.Name, jc.UID
		w.Sim.After(lag, "status-recorder "+ns+"/"+name, func() {
			cur := w.API.Peek(ResJobConfigs, ns, name)
			if cur == nil || accessor(cur).GetUID() != uid {
				return
			}
			w.API.Mutate("status-recorder", "updateStatus", ResJobConfigs, ns, name, func(o runtime.Object) {
				c := o.(*execution.JobConfig)
				if c.Status.LastScheduled == nil || c.Status.LastScheduled.Time.Before(t) {
					c.Status.LastScheduled = unixTime(t.Unix())
				}
			})
		})
	})
	w.procN = 1
	w.StartProc("ctl1", w.ctlOpts)
	w.scheduleUserOps()
	w.scheduleCrashes()
}

var tzPlain = []string{"", "", "UTC", "Asia/Singapore", "Asia/Kolkata", "Asia/Tokyo", "UTC+8", "UTC-07:00", "GMT+5:30", "UTC+0800", "GMT-3", "Asia/Kathmandu", "GMT"}
var tzDST = []string{"America/New_York", "Europe/London", "Australia/Sydney"}

var jcNames = []string{"a", "a.1", "a.1.2", "job-7", "etl.daily", "a-1", "b", "report.2024", "x.y", "nightly", "c-1700000000", "zz"}

type cronGen struct {
	r     *rand.Rand
	epoch time.Time
	dur   int
	dstOK bool
	hsd   bool
}

func (g *cronGen) pickTZ() string {
	if g.dstOK && g.r.Intn(4) == 0 {
		return tzDST[g.r.Intn(len(tzDST))]
	}
	return tzPlain[g.r.Intn(len(tzPlain))]
}

var monNames = []string{"", "JAN", "FEB", "MAR", "APR", "MAY", "JUN", "JUL", "AUG", "SEP", "OCT", "NOV", "DEC"}
var dowNm = []string{"SUN", "MON", "TUE", "WED", "THU", "FRI", "SAT"}

// expr generates one cron expression that has matches near the epoch in tz.
// allowHash: number of H items still allowed (bounded candidate space).
func (g *cronGen) expr(loc *time.Location, hashBudget *int) string {
	r := g.r
	// a target instant a little after the epoch
	target := g.epoch.Add(time.Duration(20+r.Intn(maxInt(60, g.dur-20))) * time.Second).In(loc)
	mi, h, d, mo, y := target.Minute(), target.Hour(), target.Day(), int(target.Month()), target.Year()
	useHash := func(n int) bool {
		if *hashBudget >= n && r.Intn(4) == 0 {
			*hashBudget /= n
			return true
		}
		return false
	}
	minuteField := func() string {
		switch r.Intn(7) {
		case 0:
			return "*"
		case 1:
			return fmt.Sprintf("*/%d", 1+r.Intn(5))
		case 2:
			return fmt.Sprintf("%d", mi)
		case 3:
			a := mi
			b := minInt(59, mi+1+r.Intn(4))
			return fmt.Sprintf("%d-%d", a, b)
		case 4:
			return fmt.Sprintf("%d,%d", mi, (mi+2)%60)
		case 5:
			return fmt.Sprintf("%d-%d/%d", maxInt(0, mi-4), minInt(59, mi+6), 2)
		default:
			if useHash(5) {
				return "H/5"
			}
			return fmt.Sprintf("%d/%d", mi%7, 7)
		}
	}
	switch r.Intn(10) {
	case 0: // seconds granularity, 7 fields
		sec := []string{"*", "*/5", "*/20", fmt.Sprintf("%d", target.Second()), "0,30", "10-20/5"}[r.Intn(6)]
		if useHash(10) {
			sec = "H/10"
		}
		return fmt.Sprintf("%s %s * * * * *", sec, []string{"*", "*", minuteField()}[r.Intn(3)])
	case 1: // once a minute at a hashed second
		if useHash(60) {
			return "H * * * * * *"
		}
		return "*/30 * * * * * *"
	case 2, 3: // minutely family, 5 fields
		return fmt.Sprintf("%s * * * *", minuteField())
	case 4: // hourly
		hf := []string{"*", fmt.Sprintf("%d", h), fmt.Sprintf("%d-%d", h, minInt(23, h+1)), "*/1"}[r.Intn(4)]
		return fmt.Sprintf("%s %s * * *", minuteField(), hf)
	case 5: // daily with dom / month names
		return fmt.Sprintf("%s %d %d %s *", minuteField(), h, d, monNames[mo])
	case 6: // day of week by name
		wd := dowNm[int(target.Weekday())]
		if r.Intn(2) == 0 {
			return fmt.Sprintf("%s %d * * %s", minuteField(), h, wd)
		}
		return fmt.Sprintf("%s %d * * %s,%s", minuteField(), h, wd, dowNm[(int(target.Weekday())+3)%7])
	case 7: // 6 fields with year
		return fmt.Sprintf("%s * * * * %d", minuteField(), y)
	case 8: // 7 fields fully pinned
		return fmt.Sprintf("%d %d %d %d %d * %d", target.Second(), mi, h, d, mo, y)
	default: // hashed minute within a narrow range
		if useHash(4) {
			lo := maxInt(0, mi-1)
			return fmt.Sprintf("H(%d-%d) * * * *", lo, minInt(59, lo+3))
		}
		return fmt.Sprintf("%d-%d * * * *", mi, minInt(59, mi+2))
	}
}

func minInt(a, b int) int {
	if a < b {
		return a
	}
	return b
}

func (g *cronGen) jobConfig(ns, name string, thr int64) JobConfigPlan {
	r := g.r
	jp := JobConfigPlan{NS: ns, Name: name, Policy: "Allow"}
	jp.Timezone = g.pickTZ()
	tzEff := jp.Timezone
	loc, err := oracleLocation(tzEff)
	if err != nil {
		panic(err)
	}
	budget := 600
	n := 1
	if r.Intn(4) == 0 {
		n = 2 + r.Intn(2)
	}
	if g.hsd {
		// a missing seconds field is itself a hash item with 60 candidates.
		n = 1
		budget = 60
	}
	for i := 0; i < n; i++ {
		jp.Cron = append(jp.Cron, g.expr(loc, &budget))
	}
	if r.Intn(10) < 3 {
		nb := g.epoch.Unix() + int64(r.Intn(maxInt(1, g.dur/2)))
		if r.Intn(2) == 0 {
			nb -= nb % 60
		}
		jp.NotBefore = &nb
	}
	if r.Intn(10) < 3 {
		na := g.epoch.Unix() + int64(g.dur/2+r.Intn(maxInt(1, g.dur/2)))
		if r.Intn(2) == 0 {
			na -= na % 60
		}
		jp.NotAfter = &na
	}
	jp.CreatedBefore = int64(3600 + r.Intn(30*86400))
	if r.Intn(10) < 6 {
		offs := []int64{10, 120, thr - 5, thr, thr + 5, 3600, 86400, -30}
		ls := g.epoch.Unix() - offs[r.Intn(len(offs))]
		jp.LastScheduled = &ls
		if r.Intn(5) == 0 {
			lu := g.epoch.Unix() - int64(r.Intn(90))
			jp.LastUpdated = &lu
		}
	}
	jp.Disabled = r.Intn(12) == 0
	return jp
}

var cronEpochs = []string{
	"2024-02-29T23:57:30Z", "2023-12-31T23:56:10Z", "2024-01-31T23:58:00Z", "2025-06-30T23:55:00Z",
	"2024-07-04T11:59:20Z", "2026-08-15T00:00:00Z", "2024-12-31T22:59:30Z", "2028-02-28T23:58:45Z",
}

func genCronTick(seed int64, property string) *Plan {
	r := rand.New(rand.NewSource(seed))
	p := &Plan{Preset: "cron-tick", Property: property, Seed: seed}
	var epoch time.Time
	if r.Intn(3) == 0 {
		epoch, _ = time.Parse(time.RFC3339, cronEpochs[r.Intn(len(cronEpochs))])
	} else {
		epoch = time.Unix(1650000000+r.Int63n(400000000), 0).UTC()
	}
	p.EpochUnix = epoch.Unix()
	switch r.Intn(10) {
	case 0:
		p.DurationSec = 1800 + r.Intn(3600)
	case 1, 2:
		p.DurationSec = 600 + r.Intn(600)
	default:
		p.DurationSec = 120 + r.Intn(420)
	}
	mo := epoch.Month()
	g := &cronGen{r: r, epoch: epoch, dur: p.DurationSec, dstOK: mo == 1 || mo == 6 || mo == 7 || mo == 8 || mo == 12}
	// dynamic config
	if r.Intn(3) > 0 {
		k := int64(1 + r.Intn(10))
		p.Dyn.MaxMissedSchedules = &k
	}
	p.Dyn.MaxDowntimeSec = []int64{0, 30, 60, 300, 900, 3600}[r.Intn(6)]
	thr := p.Dyn.MaxDowntimeSec
	if thr == 0 {
		thr = 300
	}
	if r.Intn(3) == 0 {
		tz := []string{"UTC", "Asia/Singapore", "UTC+8", "Asia/Kolkata"}[r.Intn(4)]
		p.Dyn.DefaultTimezone = &tz
	}
	if r.Intn(4) == 0 {
		b := r.Intn(2) == 0
		p.Dyn.HashSecondsByDefault = &b
	}
	if r.Intn(4) == 0 {
		b := r.Intn(2) == 0
		p.Dyn.HashFields = &b
	}
	g.hsd = p.Dyn.HashSecondsByDefault != nil && *p.Dyn.HashSecondsByDefault && (p.Dyn.HashNames == nil || *p.Dyn.HashNames)
	p.Proc = ProcOpts{CronTickOnly: true, ReadYield: r.Intn(3) == 0, ListPerm: uint64(r.Intn(3)) * uint64(r.Int63())}
	p.Sched = SchedOpts{Mode: []string{"fifo", "fifo", "random"}[r.Intn(3)], FifoBias: 700 + r.Intn(300)}
	if p.Proc.ReadYield {
		p.Sched.StallPm = []int{0, 5, 30}[r.Intn(3)]
	}
	// tick jitter
	n := 100 + r.Intn(200)
	stalls := 0
	for i := 0; i < n; i++ {
		x := r.Intn(100)
		switch {
		case x < 72:
			p.TickJitter = append(p.TickJitter, 0)
		case x < 87:
			p.TickJitter = append(p.TickJitter, 1+r.Intn(900))
		case x < 95:
			p.TickJitter = append(p.TickJitter, 1000+r.Intn(9000))
		case x < 97 && i > 5 && stalls < 2:
			stalls++
			maxStall := maxInt(20, p.DurationSec/3)
			p.TickJitter = append(p.TickJitter, 1000*(10+r.Intn(maxStall)))
		default:
			p.TickJitter = append(p.TickJitter, 0)
		}
	}
	// population
	nj := 1 + r.Intn(12)
	if r.Intn(3) == 0 {
		nj = 1 + r.Intn(3)
	}
	used := map[string]bool{}
	for i := 0; i < nj; i++ {
		ns := []string{"default", "default", "prod"}[r.Intn(3)]
		name := jcNames[r.Intn(len(jcNames))]
		if used[ns+"/"+name] {
			continue
		}
		used[ns+"/"+name] = true
		p.JobConfigs = append(p.JobConfigs, g.jobConfig(ns, name, thr))
	}
	p.GCDelayMs = []int{100, 300, 1500, 5000}[r.Intn(4)]

	switch property {
	case "C03":
		p.Webhook = true
		nops := 2 + r.Intn(7)
		// one plan in four: changes arrive in bursts while time may jump inside a
		// scheduling pass (a pass whose reference time is stale while it is still
		// flushing change notifications)
		burst := r.Intn(4) == 0
		burstAt := int64(5000 + r.Intn(maxInt(1, p.DurationSec*1000/2)))
		if burst {
			p.Proc.ReadYield = true
			p.Sched.StallPm = []int{30, 60, 120}[r.Intn(3)]
			nops = 5 + r.Intn(8)
		}
		var existing []string
		for k := range used {
			existing = append(existing, k)
		}
		existing = sortStrings(existing)
		for i := 0; i < nops; i++ {
			at := int64(1000 + r.Intn(maxInt(1, p.DurationSec*1000-2000)))
			if burst && r.Intn(4) != 0 {
				at = burstAt + int64(r.Intn(4000))
			}
			kind := []string{"createJobConfig", "updateSchedule", "updateSchedule", "setDisabled", "removeSchedule", "deleteJobConfig", "touchJobConfig", "recreate", "setConstraints"}[r.Intn(9)]
			if len(existing) == 0 {
				kind = "createJobConfig"
			}
			switch kind {
			case "createJobConfig":
				ns := "default"
				name := fmt.Sprintf("new-%d", i)
				jp := g.jobConfig(ns, name, thr)
				jp.LastScheduled, jp.LastUpdated = nil, nil
				jp.Disabled = false
				p.Ops = append(p.Ops, UserOp{AtMs: at, Kind: kind, NS: ns, Name: name, JC: &jp})
				existing = append(existing, ns+"/"+name)
			case "recreate":
				k := existing[r.Intn(len(existing))]
				ns, name := splitKey(k)
				jp := g.jobConfig(ns, name, thr)
				jp.LastScheduled, jp.LastUpdated = nil, nil
				jp.Disabled = false
				p.Ops = append(p.Ops, UserOp{AtMs: at, Kind: "deleteJobConfig", NS: ns, Name: name})
				p.Ops = append(p.Ops, UserOp{AtMs: at + int64(200+r.Intn(20000)), Kind: "createJobConfig", NS: ns, Name: name, JC: &jp})
			case "updateSchedule":
				k := existing[r.Intn(len(existing))]
				ns, name := splitKey(k)
				jp := g.jobConfig(ns, name, thr)
				op := UserOp{AtMs: at, Kind: kind, NS: ns, Name: name, Cron: jp.Cron}
				if r.Intn(3) == 0 {
					tz := g.pickTZ()
					op.TZ = &tz
				}
				p.Ops = append(p.Ops, op)
			case "setDisabled":
				k := existing[r.Intn(len(existing))]
				ns, name := splitKey(k)
				p.Ops = append(p.Ops, UserOp{AtMs: at, Kind: kind, NS: ns, Name: name, Bool: r.Intn(2) == 0})
				if r.Intn(2) == 0 {
					p.Ops = append(p.Ops, UserOp{AtMs: at + int64(500+r.Intn(60000)), Kind: kind, NS: ns, Name: name, Bool: false})
				}
			case "setConstraints":
				k := existing[r.Intn(len(existing))]
				ns, name := splitKey(k)
				op := UserOp{AtMs: at, Kind: kind, NS: ns, Name: name}
				if r.Intn(3) == 0 {
					op.ClearConstraints = true
				} else {
					nb := epoch.Unix() + at/1000 + int64(r.Intn(120))
					op.NotBefore = &nb
				}
				p.Ops = append(p.Ops, op)
			default:
				k := existing[r.Intn(len(existing))]
				ns, name := splitKey(k)
				p.Ops = append(p.Ops, UserOp{AtMs: at, Kind: kind, NS: ns, Name: name})
			}
		}
	case "C04":
		nc := 1 + r.Intn(2)
		at := int64(0)
		for i := 0; i < nc; i++ {
			at += int64(5000 + r.Intn(maxInt(1, p.DurationSec*1000/(nc+1))))
			downs := []int64{500, 5000, 70000, (thr - 10) * 1000, (thr + 30) * 1000, 3 * thr * 1000}
			down := downs[r.Intn(len(downs))]
			p.Crashes = append(p.Crashes, CrashPlan{AtMs: at, DownMs: down})
			at += down
		}
		if int(at/1000)+120 > p.DurationSec {
			p.DurationSec = int(at/1000) + 120 + r.Intn(120)
		}
	}
	return p
}

func sortStrings(s []string) []string {
	out := append([]string{}, s...)
	for i := 1; i < len(out); i++ {
		for j := i; j > 0 && out[j] < out[j-1]; j-- {
			out[j], out[j-1] = out[j-1], out[j]
		}
	}
	return out
}

var _ = strings.Join
