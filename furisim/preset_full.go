package furisim

import (
	"fmt"
	"strings"
	"math/rand"
	"time"

	execution "github.com/furiko-io/furiko/apis/execution/v1alpha1"
	jobtasks "github.com/furiko-io/furiko/pkg/execution/tasks"
	jobutil "github.com/furiko-io/furiko/pkg/execution/util/job"
	"github.com/furiko-io/furiko/pkg/execution/util/parallel"
)

// full: every controller of the execution controller manager (cron, job-queue,
// job, job-config, active job store) plus webhooks, kubelet, GC and user.
// Generator profiles emphasise different behaviour per property.

func init() {
	presets["full"] = &presetDef{
		setup:      setupFull,
		finish:     finishFull,
		nonTrivial: nonTrivialFull,
		generate:   genFull,
	}
}

func setupFull(w *World) {
	s := w.Sim
	w.startWebhooks()
	w.startKubelet()
	w.startGC()
	installMonitors(w)
	if w.Plan.Property == "C04" {
		// the cron oracle, here with the real job-config controller persisting lastScheduled
		m := newCronMon(w)
		w.onTickerRead = m.noteTickerRead
	}
	w.seedObjects()
	for i := range w.Plan.ForeignPods {
		fp := w.Plan.ForeignPods[i]
		s.At(w.at(fp.AtMs), "foreign-pod "+fp.Name, func() { w.createForeignPod(&fp) })
	}
	w.procN = 1
	w.StartProc("ctl1", w.ctlOpts)
	for i := range w.Plan.Jobs {
		// initial jobs are created at t=0+ by the user (through admission)
		jp := w.Plan.Jobs[i]
		s.At(w.Epoch.Add(time.Duration(10*(i+1))*time.Millisecond), "user/init-job "+jp.Name, func() {
			op := &UserOp{Kind: "createJob", NS: jp.NS, Name: jp.Name, Job: &jp}
			w.doUserOp(op)
		})
	}
	w.scheduleUserOps()
	w.scheduleCrashes()
	s.StateFn = w.abstractState
}

// heal turns every fault source off and makes sure a controller is running.
func (w *World) heal() {
	w.faultsOff = true
	w.resyncOff = true
	w.webhookDown = false
	w.webhookLag = false
	for _, p := range w.Procs {
		for r := range p.held {
			delete(p.held, r)
		}
		for _, inf := range p.informers {
			if inf.broken {
				inf.relist()
			}
		}
		p.tickerPaused = true
	}
	w.tickerPausedAll = true
	if w.controller() == nil {
		w.restartController()
	}
	w.Sim.Tracef("HEAL")
}

func finishFull(w *World) {
	s := w.Sim
	if s.CapHit {
		// the main phase ran out of steps; not a verdict by itself.
		s.stopped = false
		s.CapHit = false
		s.StepCap += 400000
	}
	w.heal()
	horizon := time.Duration(w.Plan.DrainSec) * time.Second
	if horizon <= 0 {
		horizon = 3 * time.Hour
	}
	if !s.Drain(horizon, 12*time.Hour, 600000) {
		if len(s.Viol) == 0 {
			s.Armed = nil
			s.Violate(w.Plan.Property+"/no-quiescence", "system did not reach a fixpoint after faults stopped (steps=%d, virtual=%s)", s.Steps, s.Now().Sub(w.Epoch))
		}
		return
	}
	if s.stopped {
		return
	}
	s.Stats["fixpoint"]++
	w.inFixpoint = true
	for _, f := range w.atFixpoint {
		f()
		if s.stopped {
			return
		}
	}
	w.inFixpoint = false
	if w.Plan.Saturate {
		w.saturate()
		if !s.Drain(horizon, 12*time.Hour, 600000) {
			if len(s.Viol) == 0 {
				s.Armed = nil
				s.Violate(w.Plan.Property+"/no-quiescence", "system did not reach a fixpoint in the saturation phase")
			}
			return
		}
		if s.stopped {
			return
		}
		w.inFixpoint = true
		w.saturated = true
		for _, f := range w.atFixpoint {
			f()
			if s.stopped {
				return
			}
		}
		w.inFixpoint = false
		// release phase: free one slot per JobConfig under the seeded (not the fair)
		// scheduler, so that wake-up races between the listeners of one event are explored,
		// then drain fairly and assert again.
		w.saturateRelease()
		old := s.Mode
		s.Mode = "fifo"
		s.RunUntil(s.Now().Add(90 * time.Second))
		s.Mode = old
		if s.stopped {
			return
		}
		if !s.Drain(horizon, 12*time.Hour, 600000) {
			if len(s.Viol) == 0 {
				s.Armed = nil
				s.Violate(w.Plan.Property+"/no-quiescence", "system did not reach a fixpoint in the release phase")
			}
			return
		}
		if s.stopped {
			return
		}
		w.inFixpoint = true
		for _, f := range w.atFixpoint {
			f()
			if s.stopped {
				return
			}
		}
	}
}

// saturateRelease deletes one running saturation Job per JobConfig.
func (w *World) saturateRelease() {
	done := map[string]bool{}
	for _, o := range w.API.ListRaw(ResJobs) {
		j := o.(*execution.Job)
		uid := j.Labels[labelJobConfigUID]
		if len(j.Name) > 4 && j.Name[:4] == "sat-" && isActive(j) && j.DeletionTimestamp == nil && !done[uid] {
			done[uid] = true
			w.doUserOp(&UserOp{Kind: "deleteJob", NS: j.Namespace, Name: j.Name})
		}
	}
	w.Sim.Stats["probe.saturation_release"]++
}

// saturate creates maxConcurrency+1 long-running Enqueue Jobs on every
// JobConfig with a concurrency limit: a counter that drifted below the truth
// over-admits, one that drifted above leaves capacity unused.
func (w *World) saturate() {
	for _, o := range w.API.ListRaw(ResJobConfigs) {
		jc := o.(*execution.JobConfig)
		if jc.DeletionTimestamp != nil {
			continue
		}
		max := int(jc.Spec.Concurrency.GetMaxConcurrency())
		for i := 0; i < max+1; i++ {
			name := fmt.Sprintf("sat-%s-%d", jc.Name, i)
			if w.Plan.PodOverride == nil {
				w.Plan.PodOverride = map[string]PodScript{}
			}
			jp := &JobPlan{NS: jc.Namespace, Name: name, ConfigName: jc.Name, Policy: "Enqueue"}
			w.doUserOp(&UserOp{Kind: "createJob", NS: jc.Namespace, Name: name, Job: jp})
		}
	}
	w.saturating = true
	w.Sim.Stats["probe.saturation_phase"]++
}

func nonTrivialFull(w *World) bool {
	s := w.Sim.Stats
	switch w.Plan.Property {
	case "C02":
		return s["mon.c02.creates"] > 0
	case "C05":
		return s["mon.c05.contended_starts"] > 0
	case "C06":
		return s["mon.c06.policy_decisions"] > 0
	case "C07":
		return s["mon.c07.startafter_starts"] > 0
	case "C08":
		return s["mon.c08.retry_creates"] > 0 || s["mon.c08.parallel_creates"] > 0
	case "C09":
		return s["mon.c09.adoptions"] > 0 || s["mon.c09.faulted_creates"] > 0 || s["mon.c09.foreign"] > 0 || s["mon.c09.status_checks"] > 2
	case "C10":
		return s["mon.c10.finishes"] > 0
	case "C11":
		return s["mon.c11.versions"] > 3
	case "C12":
		return s["mon.c12.deletes"] > 0
	case "C13":
		return s["mon.c13.job_removals"] > 0
	case "C15":
		return s["mon.c15.fixpoint_jcs"] > 0 && s["mon.c15.jobs_seen"] > 0
	case "C04":
		return w.Sim.Faults["proc.restart"] > 0 && s["cron.enqueue"] > 0
	case "C20":
		return w.Sim.Faults["api.drop"]+w.Sim.Faults["api.lostack"]+w.Sim.Faults["api.conflict"]+w.Sim.Faults["proc.crash"] > 0
	}
	return w.Sim.callN > 0
}

// abstractState hashes a coarse abstraction of the cluster state.
func (w *World) abstractState() uint64 {
	h := uint64(1469598103934665603)
	mix := func(s string) {
		for i := 0; i < len(s); i++ {
			h ^= uint64(s[i])
			h *= 1099511628211
		}
	}
	for _, o := range w.API.ListRaw(ResJobs) {
		j := o.(*execution.Job)
		live := 0
		for _, t := range j.Status.Tasks {
			if t.FinishTimestamp.IsZero() {
				live++
			}
		}
		mix(fmt.Sprintf("J%s:%d:%d|", j.Status.Phase, len(j.Status.Tasks), live))
	}
	for _, o := range w.API.ListRaw(ResJobConfigs) {
		jc := o.(*execution.JobConfig)
		mix(fmt.Sprintf("C%d:%d|", jc.Status.Active, jc.Status.Queued))
	}
	mix(fmt.Sprintf("P%d", len(w.API.objs[ResPods])))
	return h
}

// ---------------------------------------------------------------------------
// generator

var scriptArchetypes = map[string]func(r *rand.Rand) PodScript{
	"ok": func(r *rand.Rand) PodScript {
		return PodScript{ScheduleMs: int64(50 + r.Intn(500)), RunMs: int64(100 + r.Intn(1500)), FinishMs: int64(500 + r.Intn(6000)), Outcome: "succeed", TermMs: int64(100 + r.Intn(2000))}
	},
	"slow": func(r *rand.Rand) PodScript {
		return PodScript{ScheduleMs: int64(50 + r.Intn(500)), RunMs: int64(100 + r.Intn(1500)), FinishMs: int64(8000 + r.Intn(40000)), Outcome: "succeed", TermMs: int64(100 + r.Intn(4000))}
	},
	"fail": func(r *rand.Rand) PodScript {
		return PodScript{ScheduleMs: int64(50 + r.Intn(500)), RunMs: int64(100 + r.Intn(1500)), FinishMs: int64(300 + r.Intn(4000)), Outcome: "fail", TermMs: int64(100 + r.Intn(2000))}
	},
	"oom": func(r *rand.Rand) PodScript {
		return PodScript{ScheduleMs: int64(50 + r.Intn(500)), RunMs: int64(100 + r.Intn(1500)), FinishMs: int64(300 + r.Intn(4000)), Outcome: "oom", TermMs: 500}
	},
	"deadline": func(r *rand.Rand) PodScript {
		return PodScript{ScheduleMs: int64(50 + r.Intn(500)), RunMs: int64(100 + r.Intn(1500)), FinishMs: int64(300 + r.Intn(4000)), Outcome: "fail", TermMs: 500}
	},
	"unschedulable": func(r *rand.Rand) PodScript {
		return PodScript{ScheduleMs: -1, TermMs: 200, Outcome: "succeed"}
	},
	"stuckpending": func(r *rand.Rand) PodScript {
		return PodScript{ScheduleMs: int64(50 + r.Intn(500)), RunMs: -1, TermMs: int64(200 + r.Intn(3000)), Outcome: "succeed"}
	},
	"hang": func(r *rand.Rand) PodScript {
		return PodScript{ScheduleMs: int64(50 + r.Intn(500)), RunMs: int64(100 + r.Intn(1500)), FinishMs: -1, Outcome: "succeed", TermMs: int64(100 + r.Intn(3000))}
	},
	"deadnode": func(r *rand.Rand) PodScript {
		return PodScript{ScheduleMs: int64(50 + r.Intn(500)), RunMs: int64(100 + r.Intn(1500)), FinishMs: -1, Outcome: "succeed", TermMs: -1}
	},
	"lateterm": func(r *rand.Rand) PodScript {
		return PodScript{ScheduleMs: int64(50 + r.Intn(500)), RunMs: int64(100 + r.Intn(1500)), FinishMs: int64(20000 + r.Intn(40000)), Outcome: "succeed", TermMs: int64(10000 + r.Intn(50000))}
	},
	"deadpending": func(r *rand.Rand) PodScript {
		return PodScript{ScheduleMs: int64(50 + r.Intn(500)), RunMs: -1, TermMs: -1, Outcome: "succeed"}
	},
	"racefinish": func(r *rand.Rand) PodScript {
		// slow to start, slow to react to deletion, but completes by itself
		return PodScript{ScheduleMs: int64(50 + r.Intn(500)), RunMs: int64(6000 + r.Intn(30000)), FinishMs: int64(500 + r.Intn(3000)), Outcome: "succeed", TermMs: int64(60000 + r.Intn(60000))}
	},
	"evict": func(r *rand.Rand) PodScript {
		return PodScript{ScheduleMs: int64(50 + r.Intn(500)), RunMs: int64(100 + r.Intn(1500)), FinishMs: int64(10000 + r.Intn(20000)), Outcome: "succeed", TermMs: 500, EvictMs: int64(1500 + r.Intn(6000))}
	},
	"flap": func(r *rand.Rand) PodScript {
		return PodScript{ScheduleMs: int64(50 + r.Intn(500)), RunMs: int64(100 + r.Intn(1500)), FinishMs: int64(3000 + r.Intn(9000)), Outcome: []string{"succeed", "fail"}[r.Intn(2)], TermMs: 500, Flap: true}
	},
}

func pickScripts(r *rand.Rand, weights map[string]int, n int) []PodScript {
	names := sortedKeys(weights)
	tot := 0
	for _, k := range names {
		tot += weights[k]
	}
	var out []PodScript
	for i := 0; i < n; i++ {
		v := r.Intn(tot)
		for _, k := range names {
			if v < weights[k] {
				out = append(out, scriptArchetypes[k](r))
				break
			}
			v -= weights[k]
		}
	}
	return out
}

func i64(v int64) *int64 { return &v }

type fullGen struct {
	r    *rand.Rand
	p    *Plan
	prop string
}

func (g *fullGen) template(rich bool) JobTemplatePlan {
	r := g.r
	t := JobTemplatePlan{}
	if rich {
		switch r.Intn(6) {
		case 0, 1:
		case 2:
			t.Count = 1 + r.Intn(4)
		case 3:
			t.Keys = [][]string{{"a", "b"}, {"x", "y", "z"}, {"k1"}, {"ab", "ba", "a"}}[r.Intn(4)]
		case 4:
			t.Matrix = []map[string][]string{{"os": {"l", "w"}, "v": {"1", "2"}}, {"p": {"a", "b", "c"}}, {"x": {"1"}, "y": {"1", "2"}}}[r.Intn(3)]
		case 5:
			t.Count = 2 + r.Intn(2)
		}
		if t.Count > 0 || len(t.Keys) > 0 || len(t.Matrix) > 0 {
			t.Strategy = []string{"", "AllSuccessful", "AnySuccessful"}[r.Intn(3)]
		}
		t.MaxAttempts = int64(1 + r.Intn(4))
		if r.Intn(2) == 0 {
			t.RetryDelaySec = int64([]int{1, 3, 10, 30}[r.Intn(4)])
		}
		switch r.Intn(4) {
		case 0:
			t.PendingSec = i64(int64(3 + r.Intn(30)))
		case 1:
			t.PendingSec = i64(0)
		}
		t.ForbidForce = r.Intn(5) == 0
		if r.Intn(4) == 0 {
			t.GraceSec = i64(int64([]int{0, 1, 5, 30}[r.Intn(4)]))
		}
	} else {
		t.MaxAttempts = int64(1 + r.Intn(2))
	}
	return t
}

func genFull(seed int64, property string) *Plan {
	r := rand.New(rand.NewSource(seed))
	p := &Plan{Preset: "full", Property: property, Seed: seed}
	g := &fullGen{r: r, p: p, prop: property}
	epoch := time.Unix(1700000000+r.Int63n(200000000), 0).UTC()
	// align a little before a minute boundary so that minutely crons fire early
	epoch = epoch.Truncate(time.Minute).Add(time.Duration(30+r.Intn(25)) * time.Second)
	p.EpochUnix = epoch.Unix()
	p.DurationSec = 60 + r.Intn(180)
	p.GCDelayMs = []int{100, 500, 2000}[r.Intn(3)]
	p.Webhook = true
	p.Proc = ProcOpts{Cron: true, JobQueue: true, JobCtl: true, JobConfigCtl: true, Store: true,
		Workers: 1 + r.Intn(3), ReadYield: r.Intn(4) == 0, ListPerm: uint64(r.Intn(2)) * uint64(r.Int63())}
	if r.Intn(3) == 0 {
		p.Proc.ResyncSec = []int{20, 60, 600}[r.Intn(3)]
	}
	p.Sched = SchedOpts{Mode: []string{"fifo", "fifo", "random"}[r.Intn(3)], FifoBias: 500 + r.Intn(480), StallPm: []int{0, 0, 5, 20}[r.Intn(4)],
		APILatencyUs: []int{500, 1000, 3000, 10000}[r.Intn(4)]}
	// dynamic config
	p.Dyn.MaxMissedSchedules = i64(int64(1 + r.Intn(6)))
	p.Dyn.MaxDowntimeSec = []int64{0, 30, 300}[r.Intn(3)]
	p.Dyn.DefaultTTLSec = []*int64{nil, i64(0), i64(20), i64(120), i64(3600)}[r.Intn(5)]
	p.Dyn.DefaultPendingSec = []*int64{nil, i64(0), i64(8), i64(40), i64(900)}[r.Intn(5)]
	p.Dyn.ForceDeleteSec = []*int64{nil, i64(0), i64(5), i64(30), i64(900)}[r.Intn(5)]
	p.Dyn.MaxEnqueuedJobs = []*int64{nil, i64(2), i64(20)}[r.Intn(3)]

	rich := false
	weights := map[string]int{"ok": 10, "slow": 3, "fail": 3}
	nJC, nAdhoc, nIndep := 1+r.Intn(3), 1+r.Intn(5), r.Intn(3)
	cron := false
	faulty := false
	crashes := false
	kills := false
	switch property {
	case "C02":
		cron = true
		faulty = r.Intn(4) > 0
		crashes = r.Intn(3) == 0
		nAdhoc, nIndep = r.Intn(2), 0
		p.CronDupPm = []int{0, 200, 500, 1000}[r.Intn(4)]
	case "C04":
		cron = true
		crashes = true
		nAdhoc, nIndep = 0, 0
	case "C05", "C06":
		cron = r.Intn(3) == 0
		faulty = property == "C05" && r.Intn(3) > 0 || property == "C06" && r.Intn(3) == 0
		crashes = property == "C05" && r.Intn(3) == 0
		nAdhoc = 3 + r.Intn(7)
		nIndep = r.Intn(2)
		kills = r.Intn(2) == 0
		weights = map[string]int{"ok": 10, "slow": 6, "fail": 3, "hang": 2}
		p.Saturate = r.Intn(3) > 0
		if r.Intn(3) == 0 {
			// finished Jobs that outlive the whole run (they stay in every cache)
			p.Dyn.DefaultTTLSec = i64(1000000)
		}
	case "C07":
		p.Saturate = r.Intn(2) == 0
		if r.Intn(3) == 0 {
			p.Dyn.DefaultTTLSec = i64(1000000)
		}
		nAdhoc = 2 + r.Intn(4)
		nIndep = 2 + r.Intn(4)
		faulty = r.Intn(4) == 0
		weights = map[string]int{"ok": 10, "slow": 4}
	case "C08", "C10":
		rich = true
		nJC, nAdhoc, nIndep = 1, r.Intn(2), 2+r.Intn(4)
		weights = map[string]int{"ok": 8, "fail": 8, "oom": 2, "deadline": 1, "slow": 2, "unschedulable": 1, "evict": 2, "flap": 2, "stuckpending": 1, "racefinish": 3}
		kills = r.Intn(4) == 0
		faulty = r.Intn(4) == 0
	case "C09":
		rich = true
		nJC, nAdhoc, nIndep = 1, r.Intn(2), 1+r.Intn(3)
		weights = map[string]int{"ok": 8, "fail": 5, "slow": 3, "evict": 2}
		faulty = true
		crashes = r.Intn(2) == 0
	case "C11":
		rich = true
		nJC, nAdhoc, nIndep = 1+r.Intn(2), 1+r.Intn(3), 1+r.Intn(3)
		weights = map[string]int{"ok": 8, "fail": 5, "oom": 1, "slow": 3, "evict": 2, "flap": 4, "hang": 1, "unschedulable": 1, "racefinish": 3}
		kills = true
		if r.Intn(2) == 0 {
			p.Dyn.DefaultPendingSec = i64(int64(4 + r.Intn(10)))
		}
		faulty = r.Intn(2) == 0
	case "C12":
		rich = true
		nJC, nAdhoc, nIndep = 1, r.Intn(2), 2+r.Intn(3)
		weights = map[string]int{"ok": 4, "slow": 5, "hang": 5, "deadnode": 4, "lateterm": 3, "unschedulable": 4, "stuckpending": 4, "fail": 2, "deadpending": 3, "racefinish": 2}
		kills = true
		faulty = r.Intn(3) == 0
	case "C13":
		rich = r.Intn(2) == 0
		nJC, nAdhoc, nIndep = 1, 1+r.Intn(2), 2+r.Intn(3)
		weights = map[string]int{"ok": 8, "slow": 4, "hang": 2, "lateterm": 3, "fail": 2, "deadnode": 1}
		kills = r.Intn(3) == 0
		faulty = r.Intn(4) == 0
	case "C15":
		cron = r.Intn(2) == 0
		nJC, nAdhoc, nIndep = 1+r.Intn(3), 2+r.Intn(5), r.Intn(2)
		kills = r.Intn(3) == 0
		faulty = r.Intn(4) == 0
	case "C20":
		cron = r.Intn(2) == 0
		rich = r.Intn(2) == 0
		nJC, nAdhoc, nIndep = 1+r.Intn(2), 1+r.Intn(4), 1+r.Intn(3)
		weights = map[string]int{"ok": 10, "fail": 4, "slow": 3}
		faulty = true
		crashes = false
		p.Sched.StallPm = 0
		p.Dyn.MaxEnqueuedJobs = nil
		p.Dyn.DefaultTTLSec = []*int64{i64(0), i64(10), i64(100000)}[r.Intn(3)]
		p.Proc.ResyncSec = 0
	}
	p.PodScripts = pickScripts(r, weights, 3+r.Intn(6))

	// JobConfigs
	var jcs []string
	for i := 0; i < nJC; i++ {
		name := []string{"jc-a", "jc.b", "jc-c.1", "d"}[i%4]
		jp := JobConfigPlan{NS: "default", Name: name, CreatedBefore: int64(3600 + r.Intn(100000)), Template: g.template(rich)}
		switch property {
		case "C05":
			jp.Policy = []string{"Forbid", "Enqueue", "Enqueue"}[r.Intn(3)]
		case "C20":
			jp.Policy = []string{"Allow", "Enqueue"}[r.Intn(2)]
		default:
			jp.Policy = []string{"Allow", "Forbid", "Enqueue"}[r.Intn(3)]
		}
		if r.Intn(2) == 0 {
			jp.MaxConcurrency = i64(int64(1 + r.Intn(3)))
		}
		if cron {
			if r.Intn(2) == 0 {
				jp.Cron = []string{[]string{"*/10 * * * * * *", "*/20 * * * * * *", "0,30 * * * * * *", "*/15 * * * * * *"}[r.Intn(4)]}
			} else {
				jp.Cron = []string{"* * * * *"}
			}
			if r.Intn(4) == 0 {
				// zones without daylight saving only: the full preset draws its epoch uniformly, and
				// cron semantics inside a DST fold belong to the cron library, not to furiko (§4.2)
				jp.Timezone = []string{"Asia/Singapore", "UTC-07:00", "America/Phoenix", "Asia/Kolkata"}[r.Intn(4)]
			}
			if r.Intn(3) == 0 {
				ls := epoch.Unix() - int64([]int{5, 40, 100, 400}[r.Intn(4)])
				jp.LastScheduled = &ls
			}
		} else {
			jp.NoSchedule = r.Intn(2) == 0
			if !jp.NoSchedule {
				jp.Cron = []string{"0 3 1 1 *"}
				jp.Disabled = r.Intn(2) == 0
			}
		}
		if property == "C02" && r.Intn(3) == 0 {
			// templates copied from another JobConfig's Job may carry the reserved keys
			jp.TemplateLabels = map[string]string{"team": "x"}
			if r.Intn(2) == 0 {
				jp.TemplateLabels[labelJobConfigUID] = "uid-of-some-other-jobconfig"
			}
			if r.Intn(2) == 0 {
				jp.TemplateAnnotations = map[string]string{annScheduleTime: "1234567890", "note": "copied"}
			}
		}
		p.JobConfigs = append(p.JobConfigs, jp)
		jcs = append(jcs, name)
	}
	durMs := int64(p.DurationSec) * 1000
	// ad-hoc Jobs of JobConfigs
	var jobNames []string
	for i := 0; i < nAdhoc; i++ {
		jc := jcs[r.Intn(len(jcs))]
		jp := JobPlan{NS: "default", Name: fmt.Sprintf("adhoc-%s-%d", jc, i), ConfigName: jc}
		if r.Intn(3) == 0 {
			jp.Policy = []string{"Allow", "Forbid", "Enqueue"}[r.Intn(3)]
			if property == "C05" {
				jp.Policy = []string{"Forbid", "Enqueue"}[r.Intn(2)]
			}
			if property == "C20" {
				jp.Policy = []string{"Allow", "Enqueue"}[r.Intn(2)]
			}
		}
		if r.Intn(3) == 0 || property == "C07" && r.Intn(2) == 0 {
			jp.StartAfter = i64([]int64{-5000, 2000, 9000, 30000, 70000}[r.Intn(5)])
		}
		if r.Intn(3) == 0 {
			jp.TTLSec = i64(int64([]int{0, 5, 40}[r.Intn(3)]))
		}
		at := int64(r.Intn(int(durMs * 3 / 4)))
		if r.Intn(3) == 0 {
			at = int64(r.Intn(3000)) // burst at the start
		}
		p.Ops = append(p.Ops, UserOp{AtMs: at, Kind: "createJob", NS: "default", Name: jp.Name, Job: &jp})
		jobNames = append(jobNames, jp.Name)
	}
	for i := 0; i < nIndep; i++ {
		t := g.template(rich)
		jp := JobPlan{NS: "default", Name: fmt.Sprintf("indep-%d", i), Template: &t}
		if r.Intn(3) == 0 || property == "C07" && r.Intn(2) == 0 {
			jp.StartAfter = i64([]int64{-5000, 2000, 9000, 30000, 70000}[r.Intn(5)])
		}
		switch r.Intn(4) {
		case 0:
			jp.TTLSec = i64(int64([]int{0, 5, 40}[r.Intn(3)]))
		}
		at := int64(r.Intn(int(durMs / 2)))
		p.Ops = append(p.Ops, UserOp{AtMs: at, Kind: "createJob", NS: "default", Name: jp.Name, Job: &jp})
		jobNames = append(jobNames, jp.Name)
	}
	// kills / deletes
	if kills && len(jobNames) > 0 {
		n := 1 + r.Intn(3)
		for i := 0; i < n; i++ {
			name := jobNames[r.Intn(len(jobNames))]
			at := int64(r.Intn(int(durMs)))
			off := []int64{0, 0, 4000, 25000}[r.Intn(4)]
			p.Ops = append(p.Ops, UserOp{AtMs: at, Kind: "killJob", NS: "default", Name: name, OffMs: off})
			if r.Intn(3) == 0 {
				// the user changes their mind: remove the kill timestamp again, or push it
				// back. Admissible only while it has not passed (validating webhook).
				later := []int64{0, 0, 30000}[r.Intn(3)]
				p.Ops = append(p.Ops, UserOp{AtMs: at + int64(200+r.Intn(12000)), Kind: "unkillJob", NS: "default", Name: name, OffMs: later})
			}
		}
	}
	if property == "C13" || property == "C11" || property == "C15" || property == "C05" || property == "C06" || (property != "C20" && r.Intn(4) == 0) {
		n := 1 + r.Intn(3)
		for i := 0; i < n && len(jobNames) > 0; i++ {
			name := jobNames[r.Intn(len(jobNames))]
			p.Ops = append(p.Ops, UserOp{AtMs: int64(r.Intn(int(durMs))), Kind: "deleteJob", NS: "default", Name: name})
		}
		if r.Intn(3) == 0 {
			p.Ops = append(p.Ops, UserOp{AtMs: int64(r.Intn(int(durMs))), Kind: "killAny", NS: "default", OffMs: int64(r.Intn(100))})
		}
		if r.Intn(3) == 0 {
			p.Ops = append(p.Ops, UserOp{AtMs: int64(r.Intn(int(durMs))), Kind: "deleteAny", NS: "default", OffMs: int64(r.Intn(100))})
		}
	}
	if (property == "C05" || property == "C15" || property == "C02") && r.Intn(4) == 0 {
		// delete and recreate a JobConfig under the same name (new UID)
		jc := p.JobConfigs[r.Intn(len(p.JobConfigs))]
		at := int64(r.Intn(int(durMs * 2 / 3)))
		p.Ops = append(p.Ops, UserOp{AtMs: at, Kind: "deleteJobConfig", NS: jc.NS, Name: jc.Name})
		jc2 := jc
		jc2.LastScheduled, jc2.LastUpdated = nil, nil
		p.Ops = append(p.Ops, UserOp{AtMs: at + int64(500+r.Intn(8000)), Kind: "createJobConfig", NS: jc.NS, Name: jc.Name, JC: &jc2})
	}
	if property == "C13" && r.Intn(3) == 0 {
		// a Job deleted right after it was started, while the Pod cache lags behind
		t := g.template(false)
		jp := JobPlan{NS: "default", Name: "brief-0", Template: &t}
		at := int64(2000 + r.Intn(int(durMs/2)))
		life := int64(50 + r.Intn(1500))
		p.Ops = append(p.Ops, UserOp{AtMs: at, Kind: "createJob", NS: "default", Name: jp.Name, Job: &jp})
		p.Ops = append(p.Ops, UserOp{AtMs: at + life, Kind: "deleteJob", NS: "default", Name: jp.Name})
		lag := LagPlan{AtMs: at - 200, DurMs: life + 1000 + int64(r.Intn(6000)), Res: "pods"}
		switch r.Intn(3) {
		case 0:
			// the watch is re-established while the cache is still held and after the Pod has
			// gone: the cache never contains the Pod and delivers no event for it
			p.Relists = append(p.Relists, RelistPlan{AtMs: at + life + int64(400+r.Intn(2500)), Res: "pods"})
			lag.DurMs = life + 4000 + int64(r.Intn(4000))
		case 1:
			// not deleted by the user: it finishes by itself and is cleaned up by a TTL of 0
			// while its (finished) Pod has not reached the cache
			p.Ops = p.Ops[:len(p.Ops)-1]
			jp.TTLSec = i64(0)
			fin := int64(300 + r.Intn(3000))
			if p.PodOverride == nil {
				p.PodOverride = map[string]PodScript{}
			}
			for _, suffix := range []string{"gezdqo-0"} {
				p.PodOverride["brief-0-"+suffix] = PodScript{ScheduleMs: 100, RunMs: 200, FinishMs: fin, Outcome: "succeed", TermMs: 300}
			}
			lag.DurMs = 300 + fin + 1500 + int64(r.Intn(5000))
		}
		p.Lags = append(p.Lags, lag)
	}
	if property == "C15" && r.Intn(3) == 0 {
		// a queued Job that lives and dies entirely while the JobConfig cache is held
		jc := jcs[r.Intn(len(jcs))]
		at := int64(3000 + r.Intn(int(durMs/2)))
		life := int64(1500 + r.Intn(5000))
		jp := JobPlan{NS: "default", Name: "flash-" + jc, ConfigName: jc, StartAfter: i64(600000)}
		p.Ops = append(p.Ops, UserOp{AtMs: at, Kind: "createJob", NS: "default", Name: jp.Name, Job: &jp})
		p.Ops = append(p.Ops, UserOp{AtMs: at + life, Kind: "deleteJob", NS: "default", Name: jp.Name})
		p.Lags = append(p.Lags, LagPlan{AtMs: at - 500, DurMs: life + 500 + int64(r.Intn(4000)), Res: "jobconfigs"})
	}
	if property == "C09" && len(jobNames) > 0 && r.Intn(3) == 0 {
		// delete a Job and re-create it under the same name while the old incarnation's
		// tasks may still exist (they carry the same deterministic names)
		name := jobNames[r.Intn(len(jobNames))]
		for _, op := range p.Ops {
			if op.Kind == "createJob" && op.Name == name {
				at := op.AtMs + int64(1500+r.Intn(15000))
				p.Ops = append(p.Ops, UserOp{AtMs: at, Kind: "deleteJob", NS: "default", Name: name})
				again := *op.Job
				p.Ops = append(p.Ops, UserOp{AtMs: at + int64(50+r.Intn(4000)), Kind: "createJob", NS: "default", Name: name, Job: &again})
				break
			}
		}
	}
	if (property == "C09" || property == "C10" || property == "C12") && r.Intn(3) == 0 {
		// a foreign object occupying the task name of one index of a parallel Job: the other
		// indexes' tasks exist and run when the Job is refused
		for _, op := range p.Ops {
			if op.Kind != "createJob" || op.Job == nil || op.Job.Template == nil {
				continue
			}
			t := buildTemplate(op.Job.Template)
			if t.Parallelism == nil {
				continue
			}
			idxs := parallel.GenerateIndexes(t.Parallelism)
			if len(idxs) < 2 {
				continue
			}
			idx := idxs[1+r.Intn(len(idxs)-1)]
			if name, err := jobutil.GenerateTaskName(op.Name, jobtasks.TaskIndex{Retry: 0, Parallel: idx}); err == nil {
				p.ForeignPods = append(p.ForeignPods, ForeignPod{NS: "default", Name: name, AtMs: 0, OwnerJob: []string{"", "other"}[r.Intn(2)]})
			}
			break
		}
	}
	if property == "C09" {
		// foreign pods occupying task names
		if r.Intn(2) == 0 && len(jobNames) > 0 {
			name := jobNames[r.Intn(len(jobNames))]
			p.ForeignPods = append(p.ForeignPods, ForeignPod{NS: "default", Name: name + "-gezdqo-0", AtMs: 0, OwnerJob: []string{"", "other", name}[r.Intn(3)]})
		}
	}
	if property == "C12" || property == "C11" && r.Intn(3) == 0 {
		if r.Intn(3) == 0 {
			p.Ops = append(p.Ops, UserOp{AtMs: int64(r.Intn(int(durMs))), Kind: "setConfig", Dyn: func() *DynPlan {
				d := p.Dyn
				d.DefaultPendingSec = []*int64{nil, i64(0), i64(5), i64(30)}[r.Intn(4)]
				d.ForceDeleteSec = []*int64{nil, i64(0), i64(5), i64(30)}[r.Intn(4)]
				return &d
			}()})
		}
	}
	// faults
	if faulty {
		nw := 1 + r.Intn(3)
		// faults without workload test nothing: two windows in three open just
		// before something happens (a Job is created, a kill or delete lands, a
		// cron time comes up) instead of at a uniformly drawn instant
		var anchors []int64
		for _, op := range p.Ops {
			switch op.Kind {
			case "createJob", "killJob", "deleteJob", "killAny", "deleteAny", "createJobConfig":
				anchors = append(anchors, op.AtMs)
			}
		}
		if cron {
			anchors = append(anchors, int64(10000*(1+r.Intn(6))))
		}
		for i := 0; i < nw; i++ {
			st := int64(r.Intn(int(durMs * 3 / 4)))
			if len(anchors) > 0 && r.Intn(3) != 0 {
				st = anchors[r.Intn(len(anchors))] - int64(r.Intn(800))
				if st < 0 {
					st = 0
				}
			}
			fw := FaultWindow{StartMs: st, EndMs: st + int64(2000+r.Intn(30000))}
			switch r.Intn(4) {
			case 0:
				fw.DropPm = 30 + r.Intn(200)
			case 1:
				fw.LostAckPm = 30 + r.Intn(200)
			case 2:
				fw.ConflictPm = 30 + r.Intn(200)
			default:
				fw.DropPm, fw.LostAckPm, fw.ConflictPm = 20+r.Intn(80), 20+r.Intn(80), 20+r.Intn(80)
			}
			if r.Intn(3) == 0 {
				fw.Ctrl = [][]string{{"job"}, {"jobqueue"}, {"cron"}, {"jobconfig"}}[r.Intn(4)]
			}
			p.Faults = append(p.Faults, fw)
		}
		if r.Intn(2) == 0 {
			kinds := []PinnedFault{
				{Ctrl: "jobqueue", Verb: "updateStatus", Res: "jobs", Fault: "lostack"},
				{Ctrl: "job", Verb: "create", Res: "pods", Fault: "lostack"},
				{Ctrl: "job", Verb: "updateStatus", Res: "jobs", Fault: "drop"},
				{Ctrl: "cron", Verb: "create", Res: "jobs", Fault: "lostack"},
				{Ctrl: "job", Verb: "update", Res: "jobs", Fault: "conflict"},
				{Ctrl: "job", Verb: "delete", Res: "pods", Fault: "lostack"},
			}
			pf := kinds[r.Intn(len(kinds))]
			pf.KindN = 1 + r.Intn(4)
			p.Pinned = append(p.Pinned, pf)
		}
		// C20 is about failed/conflicting/timed-out API calls only: no cache lag or relist
		for i, n := 0, r.Intn(3); i < n && property != "C20"; i++ {
			res := []string{"jobs", "pods", "jobconfigs"}[r.Intn(3)]
			p.Lags = append(p.Lags, LagPlan{AtMs: int64(r.Intn(int(durMs))), DurMs: int64(500 + r.Intn(15000)), Res: res})
		}
		if r.Intn(3) == 0 && property != "C20" {
			p.Relists = append(p.Relists, RelistPlan{AtMs: int64(r.Intn(int(durMs))), Res: []string{"jobs", "pods", "jobconfigs"}[r.Intn(3)]})
		}
	}
	if faulty && (property == "C02" || property == "C20") && r.Intn(3) == 0 {
		p.WebhookDown = append(p.WebhookDown, LagPlan{AtMs: int64(r.Intn(int(durMs))), DurMs: int64(500 + r.Intn(20000))})
	}
	if (property == "C20" || property == "C02") && cron && r.Intn(5) == 0 {
		// an admission outage that swallows a schedule time's first creation attempts (the
		// retry back-off grows to several seconds), then the first creation that goes
		// through loses its acknowledgement; Jobs are short and cleaned up immediately
		period := int64(0)
		for _, jc := range p.JobConfigs {
			if len(jc.Cron) == 1 && strings.HasPrefix(jc.Cron[0], "*/") {
				fmt.Sscanf(jc.Cron[0], "*/%d", &period)
				break
			}
		}
		if period > 0 {
			t := epoch.Unix() + 15 + int64(r.Intn(int(durMs/2000)))
			t = (t/period + 1) * period
			at := (t-epoch.Unix())*1000 - 300
			dur := int64(5000 + r.Intn(13000))
			p.WebhookDown = append(p.WebhookDown, LagPlan{AtMs: at, DurMs: dur})
			p.Pinned = append(p.Pinned, PinnedFault{Ctrl: "cron", Verb: "create", Res: "jobs", AfterMs: at + dur, Fault: "lostack"})
			p.Dyn.DefaultTTLSec = i64(0)
			p.PodScripts = []PodScript{{ScheduleMs: 100, RunMs: 200, FinishMs: int64(300 + r.Intn(1200)), Outcome: "succeed", TermMs: 300}}
		}
	}
	if crashes {
		n := 1 + r.Intn(2)
		at := int64(0)
		for i := 0; i < n; i++ {
			at += int64(3000 + r.Intn(int(durMs/2)))
			down := []int64{200, 2000, 20000, 90000}[r.Intn(4)]
			p.Crashes = append(p.Crashes, CrashPlan{AtMs: at, DownMs: down})
			at += down
		}
		if r.Intn(2) == 0 {
			kinds := []PinnedFault{
				{Ctrl: "job", Verb: "create", Res: "pods", Fault: "crash-after"},
				{Ctrl: "job", Verb: "create", Res: "pods", Fault: "crash-before"},
				{Ctrl: "jobqueue", Verb: "updateStatus", Res: "jobs", Fault: "crash-after"},
				{Ctrl: "job", Verb: "updateStatus", Res: "jobs", Fault: "crash-before"},
				{Ctrl: "cron", Verb: "create", Res: "jobs", Fault: "crash-after"},
				{Ctrl: "job", Verb: "update", Res: "jobs", Fault: "crash-after"},
			}
			pf := kinds[r.Intn(len(kinds))]
			pf.KindN = 1 + r.Intn(4)
			pf.RestartMs = []int64{200, 3000, 30000}[r.Intn(3)]
			p.Pinned = append(p.Pinned, pf)
		}
	}
	return p
}

var _ = jobutil.IsActive
