package furisim

import (
	"testing"
	"testing/synctest"
	"time"

	"github.com/furiko-io/furiko/pkg/utils/ktime"
)

func TestProbe(t *testing.T) {
	synctest.Test(t, func(t *testing.T) {
		t.Log(ktime.Now(), time.Now())
		time.Sleep(time.Hour)
		t.Log(ktime.Now())
	})
}
