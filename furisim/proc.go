package furisim

import (
	"context"
	"fmt"
	"sort"
	"time"

	"k8s.io/apimachinery/pkg/runtime"
	k8sinformers "k8s.io/client-go/informers"
	"k8s.io/client-go/kubernetes"
	"k8s.io/client-go/tools/cache"
	"k8s.io/client-go/tools/record"
	"k8s.io/utils/clock"

	configv1alpha1 "github.com/furiko-io/furiko/apis/config/v1alpha1"
	execution "github.com/furiko-io/furiko/apis/execution/v1alpha1"
	"github.com/furiko-io/furiko/pkg/execution/controllers/croncontroller"
	"github.com/furiko-io/furiko/pkg/execution/controllers/jobconfigcontroller"
	"github.com/furiko-io/furiko/pkg/execution/controllers/jobcontroller"
	"github.com/furiko-io/furiko/pkg/execution/controllers/jobqueuecontroller"
	"github.com/furiko-io/furiko/pkg/execution/stores/activejobstore"
	furikoclient "github.com/furiko-io/furiko/pkg/generated/clientset/versioned"
	furikoinformers "github.com/furiko-io/furiko/pkg/generated/informers/externalversions"
	"github.com/furiko-io/furiko/pkg/runtime/controllercontext"
	"github.com/furiko-io/furiko/pkg/runtime/reconciler"
)

// DynConfig is the dynamic configuration shared by all processes (it plays the
// role of the ConfigMap). Readers get deep copies.
type DynConfig struct {
	Jobs       configv1alpha1.JobExecutionConfig
	JobConfigs configv1alpha1.JobConfigExecutionConfig
	Cron       configv1alpha1.CronExecutionConfig
}

type simConfigs struct{ dc *DynConfig }

func (c *simConfigs) Start(ctx context.Context) error { return nil }
func (c *simConfigs) AllConfigs() (map[configv1alpha1.ConfigName]runtime.Object, error) {
	j, _ := c.Jobs()
	jc, _ := c.JobConfigs()
	cr, _ := c.Cron()
	return map[configv1alpha1.ConfigName]runtime.Object{
		configv1alpha1.JobExecutionConfigName:       j,
		configv1alpha1.JobConfigExecutionConfigName: jc,
		configv1alpha1.CronExecutionConfigName:      cr,
	}, nil
}
func (c *simConfigs) Jobs() (*configv1alpha1.JobExecutionConfig, error) {
	return c.dc.Jobs.DeepCopy(), nil
}
func (c *simConfigs) JobConfigs() (*configv1alpha1.JobConfigExecutionConfig, error) {
	return c.dc.JobConfigs.DeepCopy(), nil
}
func (c *simConfigs) Cron() (*configv1alpha1.CronExecutionConfig, error) {
	return c.dc.Cron.DeepCopy(), nil
}

// ProcOpts selects what a simulated controller process runs.
type ProcOpts struct {
	Cron         bool `json:"cron,omitempty"`
	CronTickOnly bool `json:"cronTickOnly,omitempty"` // ticker+CronWorker+enqueue handler only (no reconciler)
	JobQueue     bool `json:"jobQueue,omitempty"`
	JobCtl       bool `json:"jobCtl,omitempty"`
	JobConfigCtl bool `json:"jobConfigCtl,omitempty"`
	Store        bool `json:"store,omitempty"`
	Workers      int  `json:"workers,omitempty"`
	ReadYield    bool `json:"readYield,omitempty"`
	ListPerm     uint64 `json:"listPerm,omitempty"`
	CacheWeight  int  `json:"cacheWeight,omitempty"`
	NotifyWeight int  `json:"notifyWeight,omitempty"`
	ResyncSec    int  `json:"resyncSec,omitempty"`
}

// Proc is one simulated OS process (controller manager or webhook server).
type Proc struct {
	sim          *Sim
	api          *SimAPI
	w            *World
	name         string
	opts         ProcOpts
	dead         bool
	ready        bool
	deadReason   string
	ctx          context.Context
	cancel       context.CancelFunc
	informers    map[Resource]*simInformer
	infStarted   bool
	queues       []*simQueue
	listPerm     uint64
	readYield    bool
	cacheWeight  int
	notifyWeight int
	startStamp   uint64
	held         map[Resource]time.Time
	store        *activejobstore.Store
	stores       *simStores
	cronWorker   *croncontroller.CronWorker
	cronQueue    *simQueue
	tickerPaused bool
	cronListener *simListener
	pendingTick  chan time.Time
	runsPending  int
}

func (p *Proc) cacheHeld(res Resource) bool {
	until, ok := p.held[res]
	if !ok {
		return false
	}
	if !p.sim.Now().Before(until) {
		delete(p.held, res)
		return false
	}
	return true
}

func (p *Proc) informerFor(res Resource) *simInformer {
	if i := p.informers[res]; i != nil {
		return i
	}
	i := newSimInformer(p, res)
	p.informers[res] = i
	return i
}

func (p *Proc) startInformers() {
	p.infStarted = true
	for _, i := range p.informers {
		i.started = true
	}
}

// --- controllercontext.Context ---------------------------------------------

type simContext struct{ p *Proc }

var _ controllercontext.Context = (*simContext)(nil)

func (c *simContext) Start(ctx context.Context) error        { c.p.startInformers(); return nil }
func (c *simContext) Clientsets() controllercontext.Clientsets { return &simClientsets{c.p} }
func (c *simContext) Configs() controllercontext.Configs       { return &simConfigs{c.p.w.Dyn} }
func (c *simContext) Stores() controllercontext.Stores         { return c.p.stores }
func (c *simContext) Informers() controllercontext.Informers   { return &simInformers{c.p} }

type simClientsets struct{ p *Proc }

func (c *simClientsets) Kubernetes() kubernetes.Interface { return &kubeClientset{proc: c.p} }
func (c *simClientsets) Furiko() furikoclient.Interface   { return &furikoClientset{proc: c.p} }

type simInformers struct{ p *Proc }

func (c *simInformers) Start(ctx context.Context) error { c.p.startInformers(); return nil }
func (c *simInformers) Kubernetes() k8sinformers.SharedInformerFactory {
	return &kubeFactory{proc: c.p}
}
func (c *simInformers) Furiko() furikoinformers.SharedInformerFactory {
	return &furikoFactory{proc: c.p}
}

// --- stores -----------------------------------------------------------------

type simStores struct {
	p      *Proc
	stores []controllercontext.Store
}

func (s *simStores) Register(store controllercontext.Store) { s.stores = append(s.stores, store) }
func (s *simStores) ActiveJobStore() (controllercontext.ActiveJobStore, error) {
	for _, st := range s.stores {
		if a, ok := st.(controllercontext.ActiveJobStore); ok {
			return &storeWrapper{p: s.p, real: a}, nil
		}
	}
	return nil, controllercontext.ErrStoreNotRegistered
}

type storeWrapper struct {
	p    *Proc
	real controllercontext.ActiveJobStore
}

func (w *storeWrapper) CountActiveJobsForConfig(rjc *execution.JobConfig) int64 {
	w.p.sim.Yield(w.p, "store", "count "+rjc.Namespace+"/"+rjc.Name)
	n := w.real.CountActiveJobsForConfig(rjc)
	w.p.w.noteStoreCount(w.p, rjc, n)
	return n
}
func (w *storeWrapper) CheckAndAdd(rjc *execution.JobConfig, oldCount int64) bool {
	w.p.sim.Yield(w.p, "store", "checkAndAdd "+rjc.Namespace+"/"+rjc.Name)
	ok := w.real.CheckAndAdd(rjc, oldCount)
	if !ok {
		w.p.sim.Stats["probe.cas_failed"]++
	}
	return ok
}
func (w *storeWrapper) Delete(rjc *execution.JobConfig) {
	w.p.sim.Yield(w.p, "store", "delete "+rjc.Namespace+"/"+rjc.Name)
	w.p.sim.Stats["probe.store_rollback"]++
	w.real.Delete(rjc)
}

// --- cron clock -------------------------------------------------------------

// simClock is installed as croncontroller.Clock. Now is the bubble clock;
// After creates a simulated timer that may fire late (tick jitter).
type simClock struct {
	clock.RealClock
	w *World
}

// Now is the bubble clock. The first read after a cron Init began is the
// instant cronschedule.New uses as its reference: report it to the monitors.
func (c *simClock) Now() time.Time {
	now := time.Now()
	if p := c.w.cronInitProc; p != nil {
		if t := c.w.Sim.lookupTask(); t != nil && t.proc == p {
			c.w.cronInitProc = nil
			for _, f := range c.w.onCronInit {
				f(p)
			}
		}
	}
	return now
}

func (c *simClock) After(d time.Duration) <-chan time.Time {
	s := c.w.Sim
	ch := make(chan time.Time, 1)
	t := s.lookupTask()
	var p *Proc
	if t != nil {
		p = t.proc
	}
	if p == nil {
		// first call of a ticker goroutine: bound by the harness via tickerProc.
		p = c.w.tickerProc
		if p != nil {
			t = s.bind(p, p.name+"/cron/ticker")
			t.ctrlName = "cron"
		}
	}
	if p == nil || p.dead {
		return ch
	}
	for _, f := range c.w.onWorkEnd {
		f(p)
	}
	jitter := c.w.nextTickJitter()
	at := s.Now().Add(d + jitter)
	p.pendingTick = ch
	s.At(at, p.name+"/cron/tick", func() {
		if p.dead {
			return
		}
		if p.tickerPaused || c.w.tickerPausedAll {
			return
		}
		s.Stats["cron.tick"]++
		for _, f := range c.w.onTickStart {
			f(p)
		}
		ch <- s.Now()
	})
	return ch
}

// --- process assembly -------------------------------------------------------

type nopCronRecorder struct{ p *Proc }

func (r *nopCronRecorder) CreatedJob(ctx context.Context, jc *execution.JobConfig, job *execution.Job) {}
func (r *nopCronRecorder) CreateJobFailed(ctx context.Context, jc *execution.JobConfig, job *execution.Job, message string) {
	r.p.w.noteCronRefusal(r.p, jc, job.Name, "CreateJobFailed: "+message)
}
func (r *nopCronRecorder) SkippedJobSchedule(ctx context.Context, jc *execution.JobConfig, t time.Time, message string) {
	r.p.w.noteCronRefusal(r.p, jc, fmt.Sprintf("%s-%d", jc.Name, t.Unix()), "Skipped: "+message)
}

type recordingEnqueueHandler struct {
	p    *Proc
	real croncontroller.EnqueueHandler
}

func (h *recordingEnqueueHandler) EnqueueJobConfig(jc *execution.JobConfig, t time.Time) error {
	h.p.w.noteEnqueue(h.p, jc, t)
	return h.real.EnqueueJobConfig(jc, t)
}

func (w *World) StartProc(name string, opts ProcOpts) *Proc {
	s := w.Sim
	ctx, cancel := context.WithCancel(context.Background())
	p := &Proc{sim: s, api: w.API, w: w, name: name, opts: opts, ctx: ctx, cancel: cancel,
		informers: map[Resource]*simInformer{}, listPerm: opts.ListPerm, readYield: opts.ReadYield,
		cacheWeight: opts.CacheWeight, notifyWeight: opts.NotifyWeight, held: map[Resource]time.Time{}}
	if p.cacheWeight <= 0 {
		p.cacheWeight = 10
	}
	if p.notifyWeight <= 0 {
		p.notifyWeight = 10
	}
	p.startStamp = s.nextSeqLocked()
	p.stores = &simStores{p: p}
	w.Procs = append(w.Procs, p)
	s.Tracef("START process %s %+v", name, opts)
	cc := &simContext{p}
	workers := opts.Workers
	if workers <= 0 {
		workers = 2
	}
	conc := &configv1alpha1.Concurrency{Workers: uint64(workers)}
	rec := &record.FakeRecorder{}
	var runs []func()

	if opts.Store {
		st, err := activejobstore.NewStore(cc)
		if err != nil {
			panic(err)
		}
		p.store = st
		p.stores.Register(st)
	}
	if opts.JobQueue {
		c := jobqueuecontroller.NewContextWithRecorder(cc, rec)
		qc := newSimQueue(p, "jobqueue", "jobqueue.perconfig")
		qi := newSimQueue(p, "jobqueue", "jobqueue.independent")
		c.VerifSetQueues(qc, qi)
		jc := jobqueuecontroller.NewJobControl(cc.Clientsets().Furiko().ExecutionV1alpha1(), rec)
		per := jobqueuecontroller.NewPerConfigReconciler(c, conc, jc)
		ind := jobqueuecontroller.NewIndependentReconciler(c, conc, jc)
		jobqueuecontroller.NewInformerWorker(c)
		rc1 := reconciler.NewController(per, qc)
		rc2 := reconciler.NewController(ind, qi)
		runs = append(runs, func() {
			if !cache.WaitForNamedCacheSync("JobQueueController", p.ctx.Done(), c.GetHasSynced()...) {
				return
			}
			rc1.Start(p.ctx)
			rc2.Start(p.ctx)
		})
	}
	if opts.JobCtl {
		c := jobcontroller.NewContextWithRecorder(cc, rec)
		q := newSimQueue(p, "job", "job")
		c.VerifSetQueue(q)
		jobcontroller.NewInformerWorker(c)
		rc := reconciler.NewController(jobcontroller.NewReconciler(c, conc), q)
		runs = append(runs, func() {
			if !cache.WaitForNamedCacheSync("JobController", p.ctx.Done(), c.GetHasSynced()...) {
				return
			}
			rc.Start(p.ctx)
		})
	}
	if opts.JobConfigCtl {
		c := jobconfigcontroller.NewContextWithRecorder(cc, rec)
		q := newSimQueue(p, "jobconfig", "jobconfig")
		c.VerifSetQueue(q)
		jobconfigcontroller.NewInformerWorker(c)
		rc := reconciler.NewController(jobconfigcontroller.NewReconciler(c, conc), q)
		runs = append(runs, func() {
			if !cache.WaitForNamedCacheSync("JobConfigController", p.ctx.Done(), c.GetHasSynced()...) {
				return
			}
			rc.Start(p.ctx)
		})
	}
	if opts.Cron || opts.CronTickOnly {
		c := croncontroller.NewContext(cc)
		q := newSimQueue(p, "cron", "cron")
		c.VerifSetQueue(q)
		p.cronQueue = q
		q.onAdd = func(item string) { w.noteCronQueueAdd(p, item) }
		handler := &recordingEnqueueHandler{p: p, real: croncontroller.VerifNewEnqueueHandler(c)}
		cw := croncontroller.NewCronWorker(c, handler)
		p.cronWorker = cw
		iw := croncontroller.NewInformerWorker(c, croncontroller.NewUpdateHandler(c))
		var rc *reconciler.Controller
		if opts.Cron {
			recorder := &nopCronRecorder{p}
			recon := &croncontroller.Reconciler{}
			client := croncontroller.NewExecutionControl(recon.Name(), cc.Clientsets().Furiko().ExecutionV1alpha1(), recorder)
			store, err := cc.Stores().ActiveJobStore()
			if err != nil {
				panic(err)
			}
			rc = reconciler.NewController(croncontroller.NewReconciler(c, client, recorder, store, conc), q)
		}
		runs = append(runs, func() {
			// mirrors croncontroller.Controller.Run
			before := len(p.informerFor(ResJobConfigs).listeners)
			iw.Init()
			if ls := p.informerFor(ResJobConfigs).listeners; len(ls) > before {
				p.cronListener = ls[len(ls)-1]
			}
			if !cache.WaitForNamedCacheSync("CronController", p.ctx.Done(), c.HasSynced...) {
				return
			}
			w.noteCronInit(p)
			if err := cw.Init(); err != nil {
				s.Tracef("cron worker init error: %v", err)
				w.cronInitErr = err
			}
			if rc != nil {
				rc.Start(p.ctx)
			}
			w.tickerProc = p
			cw.Start(p.ctx)
		})
	}

	// resync timer
	if opts.ResyncSec > 0 {
		var arm func()
		arm = func() {
			s.After(time.Duration(opts.ResyncSec)*time.Second, p.name+"/resync", func() {
				if p.dead || w.resyncOff {
					return
				}
				keys := make([]string, 0)
				for r := range p.informers {
					keys = append(keys, string(r))
				}
				sort.Strings(keys)
				for _, r := range keys {
					if i := p.informers[Resource(r)]; i.synced {
						i.resync()
					}
				}
				arm()
			})
		}
		arm()
	}

	// start-up poll: bubble timers inside WaitForCacheSync need time to pass.
	var poll func()
	poll = func() {
		s.After(100*time.Millisecond, p.name+"/startup-poll", func() {
			if !p.dead && !p.ready {
				poll()
			}
		})
	}
	poll()

	p.runsPending = len(runs)
	s.Go(p, p.name+"/main", func() {
		// BaseManager.Start
		p.startInformers()
		// RecoverStores
		if p.store != nil {
			if err := p.store.Recover(p.ctx); err != nil {
				s.Tracef("%s store recover error: %v", p.name, err)
				return
			}
			s.Stats["store.recovered"]++
		}
		if len(runs) == 0 {
			p.ready = true
		}
		// RunControllers
		for i, run := range runs {
			run := run
			s.Go(p, fmt.Sprintf("%s/run%d", p.name, i), func() {
				run()
				s.mu.Lock()
				p.runsPending--
				if p.runsPending == 0 {
					p.ready = true
				}
				s.mu.Unlock()
			})
		}
	})
	return p
}

// markDead makes every later seam of the process fail without effect.
func (p *Proc) markDead(reason string) {
	if p.dead {
		return
	}
	p.dead = true
	p.deadReason = reason
	p.cancel()
	for _, q := range p.queues {
		q.shutdown = true
	}
	if reason != "teardown" {
		p.sim.Faults["proc.crash"]++
	}
	p.sim.Tracef("CRASH process %s: %s", p.name, reason)
}

func (p *Proc) crash(reason string) { p.markDead(reason) }

// reap releases every parked task of a dead process so that it unwinds
// through the error paths (scheduler goroutine only).
func (p *Proc) reap() {
	s := p.sim
	for iter := 0; iter < 1000; iter++ {
		var victims []*Task
		for _, t := range s.parkedTasks() {
			if t.proc == p && t.kind != "livelock" {
				victims = append(victims, t)
			}
		}
		if len(victims) == 0 {
			return
		}
		for _, t := range victims {
			for _, q := range p.queues {
				for i, it := range q.idle {
					if it == t {
						q.idle = append(q.idle[:i], q.idle[i+1:]...)
						break
					}
				}
			}
			s.release(t, resumeMsg{shutdown: true})
		}
	}
	panic("furisim: dead process keeps parking")
}
