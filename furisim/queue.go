package furisim

import (
	"fmt"
	"time"

	"k8s.io/client-go/util/workqueue"
)

// simQueue implements workqueue.RateLimitingInterface with client-go's
// semantics (dedup, dirty/processing sets) but hands items to workers only
// when the scheduler says so.
type simQueue struct {
	proc       *Proc
	name       string
	ctrl       string
	queue      []string
	dirty      map[string]bool
	processing map[string]bool
	idle       []*Task
	shutdown   bool
	limiter    workqueue.RateLimiter
	onAdd      func(item string) // observation hook (monitors)
	stamps     map[string]uint64
	waiting    map[string]*simTimer
	Adds       int
}

var _ workqueue.RateLimitingInterface = (*simQueue)(nil)

func newSimQueue(p *Proc, ctrl, name string) *simQueue {
	q := &simQueue{proc: p, name: name, ctrl: ctrl, dirty: map[string]bool{}, processing: map[string]bool{},
		limiter: workqueue.DefaultControllerRateLimiter(), stamps: map[string]uint64{}, waiting: map[string]*simTimer{}}
	p.queues = append(p.queues, q)
	return q
}

func (q *simQueue) Add(item interface{}) {
	if q.shutdown {
		return
	}
	k := item.(string)
	q.Adds++
	if q.onAdd != nil {
		q.onAdd(k)
	}
	if q.dirty[k] {
		return
	}
	q.dirty[k] = true
	if q.processing[k] {
		return
	}
	q.queue = append(q.queue, k)
	q.stamps[k] = q.proc.sim.nextSeqLocked()
}

func (q *simQueue) Len() int { return len(q.queue) }

func (q *simQueue) Get() (interface{}, bool) {
	s := q.proc.sim
	if s.onScheduler() {
		panic("simQueue.Get on scheduler goroutine")
	}
	if q.shutdown || q.proc.dead {
		return nil, true
	}
	t := s.bind(q.proc, fmt.Sprintf("%s/%s/idle", q.proc.name, q.name))
	t.readSet = nil
	t.syncItem = ""
	s.mu.Lock()
	q.idle = append(q.idle, t)
	s.mu.Unlock()
	msg := s.park(t, "queue.get", q.name, false)
	if msg.shutdown {
		return nil, true
	}
	return msg.item, false
}

func (q *simQueue) Done(item interface{}) {
	k := item.(string)
	delete(q.processing, k)
	if q.shutdown {
		return
	}
	if q.dirty[k] {
		q.queue = append(q.queue, k)
		q.stamps[k] = q.proc.sim.nextSeqLocked()
	}
}

func (q *simQueue) ShutDown() {
	q.shutdown = true
}
func (q *simQueue) ShutDownWithDrain() { q.ShutDown() }
func (q *simQueue) ShuttingDown() bool  { return q.shutdown }

func (q *simQueue) AddAfter(item interface{}, d time.Duration) {
	if q.shutdown {
		return
	}
	if d <= 0 {
		q.Add(item)
		return
	}
	k := item.(string)
	// client-go's delaying queue keeps one waiting entry per item and only ever
	// moves it earlier.
	at := q.proc.sim.Now().Add(d)
	if w := q.waiting[k]; w != nil && !w.canceled {
		if !at.Before(w.at) {
			return
		}
		q.proc.sim.Cancel(w)
	}
	q.waiting[k] = q.proc.sim.At(at, fmt.Sprintf("%s/%s addAfter %s", q.proc.name, q.name, k), func() {
		delete(q.waiting, k)
		if q.proc.dead || q.shutdown {
			return
		}
		q.Add(k)
	})
}

func (q *simQueue) AddRateLimited(item interface{}) {
	q.proc.sim.Stats["requeue."+q.ctrl]++
	q.AddAfter(item, q.limiter.When(item))
}
func (q *simQueue) Forget(item interface{})          { q.limiter.Forget(item) }
func (q *simQueue) NumRequeues(item interface{}) int { return q.limiter.NumRequeues(item) }

// releaseIdle wakes all idle workers with a shutdown answer.
func (q *simQueue) releaseIdle() {
	idle := q.idle
	q.idle = nil
	for _, t := range idle {
		q.proc.sim.release(t, resumeMsg{shutdown: true})
	}
}

func (q *simQueue) actions(add func(Action)) {
	if q.shutdown || q.proc.dead || len(q.queue) == 0 || len(q.idle) == 0 {
		return
	}
	k := q.queue[0]
	add(Action{Kind: "dispatch", Key: fmt.Sprintf("%s/%s %s", q.proc.name, q.name, k), Stamp: q.stamps[k], Weight: 10, Run: func() {
		q.queue = q.queue[1:]
		delete(q.dirty, k)
		q.processing[k] = true
		t := q.idle[len(q.idle)-1]
		q.idle = q.idle[:len(q.idle)-1]
		s := q.proc.sim
		s.mu.Lock()
		t.id = fmt.Sprintf("%s/%s/%s", q.proc.name, q.name, k)
		t.syncItem = k
		t.ctrlName = q.ctrl
		t.syncStart = s.Now()
		t.readSet = map[string]string{}
		s.mu.Unlock()
		s.Stats["sync."+q.ctrl]++
		s.release(t, resumeMsg{item: k})
	}})
}
