package furisim

import (
	"flag"
	"fmt"
	"io"
	"os"
	"testing"
	"testing/synctest"
	"time"

	metav1 "k8s.io/apimachinery/pkg/apis/meta/v1"
	"k8s.io/apimachinery/pkg/runtime"
	"k8s.io/klog/v2"

	execution "github.com/furiko-io/furiko/apis/execution/v1alpha1"
)

func init() {
	fs := flag.NewFlagSet("klog", flag.ContinueOnError)
	klog.InitFlags(fs)
	fs.Set("logtostderr", "false")
	fs.Set("alsologtostderr", "false")
	fs.Set("stderrthreshold", "FATAL")
	klog.SetOutput(io.Discard)
}

// Result is what one simulated run reports.
type Result struct {
	Property   string         `json:"property"`
	Preset     string         `json:"preset"`
	Seed       int64          `json:"seed"`
	Violations []Violation    `json:"violations,omitempty"`
	Steps      int            `json:"steps"`
	VirtualSec float64        `json:"virtualSec"`
	Signature  string         `json:"signature"`
	States     int            `json:"states"`
	NonTrivial bool           `json:"nonTrivial"`
	Stats      map[string]int `json:"stats"`
	Faults     map[string]int `json:"faults"`
	Choices    int            `json:"choices"`
	APICalls   int            `json:"apiCalls"`
	Trace      []string       `json:"trace,omitempty"`
	Note       string         `json:"note,omitempty"`
	HarnessErr string         `json:"harnessErr,omitempty"`
	choices    []int
	callLog    []string
}

// Seed inserts an object directly into the API server (initial state).
func (a *SimAPI) Seed(obj runtime.Object, created time.Time) runtime.Object {
	res := resourceOf(obj)
	obj = roundTrip(res, obj)
	m := accessor(obj)
	m.SetUID(a.nextUID())
	m.SetResourceVersion(a.nextRV())
	m.SetCreationTimestamp(metav1.NewTime(created.Truncate(time.Second)))
	m.SetGeneration(1)
	a.objs[res][objKeyOf(obj)] = obj
	a.emit("ADDED", res, nil, obj, "seed", "create")
	return obj
}

func (w *World) seedObjects() {
	for i := range w.Plan.JobConfigs {
		jp := &w.Plan.JobConfigs[i]
		jc := buildJobConfig(jp)
		created := w.Epoch.Add(-time.Duration(jp.CreatedBefore) * time.Second)
		if jc.Spec.Schedule != nil && jc.Spec.Schedule.LastUpdated == nil {
			ts := metav1.NewTime(created.Truncate(time.Second))
			jc.Spec.Schedule.LastUpdated = &ts
		}
		if jp.LastScheduled != nil {
			jc.Status.LastScheduled = unixTime(*jp.LastScheduled)
		}
		w.API.Seed(jc, created)
	}
}

// RunPlan executes one plan in a fresh bubble.
func RunPlan(t *testing.T, plan *Plan, ch *Choices, traceAll bool) (res *Result) {
	res = &Result{Property: plan.Property, Preset: plan.Preset, Seed: plan.Seed}
	defer func() {
		if r := recover(); r != nil {
			msg := fmt.Sprint(r)
			if msg != "deadlock: main bubble goroutine has exited but blocked goroutines remain" {
				res.HarnessErr = msg
			}
		}
	}()
	synctest.Test(t, func(t *testing.T) {
		runInBubble(plan, ch, traceAll, res)
	})
	return res
}

func runInBubble(plan *Plan, ch *Choices, traceAll bool, res *Result) {
	w := NewWorld(plan, ch)
	s := w.Sim
	s.TraceAll = traceAll
	if v := os.Getenv("VERIF_STEPCAP"); v != "" {
		fmt.Sscan(v, &s.StepCap)
	}
	epoch := time.Unix(plan.EpochUnix, 0)
	w.Epoch = epoch
	s.Epoch = epoch
	if d := epoch.Sub(time.Now()); d > 0 {
		time.Sleep(d)
	}
	preset := presets[plan.Preset]
	if preset == nil {
		panic("unknown preset " + plan.Preset)
	}
	preset.setup(w)
	end := epoch.Add(time.Duration(plan.DurationSec) * time.Second)
	s.RunUntil(end)
	if !s.stopped || (s.CapHit && len(s.Viol) == 0) {
		preset.finish(w)
	}
	// teardown: let every SUT goroutine unwind.
	for _, p := range w.Procs {
		p.markDead("teardown")
	}
	synctest.Wait()
	w.reapDead()
	time.Sleep(2 * time.Second)
	synctest.Wait()
	w.reapDead()

	res.Violations = s.Viol
	res.Steps = s.Steps
	res.VirtualSec = s.Now().Sub(epoch).Seconds()
	res.Signature = fmt.Sprintf("%016x", s.Signature())
	res.States = s.DistinctStates()
	res.Stats = s.Stats
	res.Faults = s.Faults
	res.Choices = len(ch.Rec)
	res.choices = ch.Rec
	res.APICalls = s.callN
	res.NonTrivial = preset.nonTrivial(w)
	if len(s.Viol) > 0 || traceAll {
		res.Trace = s.Trace()
	}
	if s.CapHit {
		res.Note = "step cap hit"
	}
}

// preset bundles the scenario-specific wiring.
type presetDef struct {
	setup      func(w *World)
	finish     func(w *World) // heal + drain + fixpoint assertions
	nonTrivial func(w *World) bool
	generate   func(seed int64, property string) *Plan
}

var presets = map[string]*presetDef{}

var _ = execution.Job{}
