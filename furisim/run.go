package furisim

import (
	"flag"
	"fmt"
	"io"
	"os"
	"sort"
	"strings"
	"testing"
	"testing/synctest"
	"time"

	metav1 "k8s.io/apimachinery/pkg/apis/meta/v1"
	"k8s.io/apimachinery/pkg/runtime"
	utilruntime "k8s.io/apimachinery/pkg/util/runtime"
	"k8s.io/klog/v2"

	execution "github.com/furiko-io/furiko/apis/execution/v1alpha1"
)

func init() {
	fs := flag.NewFlagSet("klog", flag.ContinueOnError)
	klog.InitFlags(fs)
	fs.Set("logtostderr", "false")
	fs.Set("alsologtostderr", "false")
	fs.Set("stderrthreshold", "FATAL")
	klog.SetOutput(io.Discard)
	// client-go reports errors through a process-global handler list whose second
	// entry sleeps 1ms while holding a mutex (a log throttle). Two goroutines
	// reporting at the same instant (e.g. two WaitForCacheSync calls aborted by a
	// crash during start-up) then block on a sync.Mutex, which is not a durable
	// block for synctest: the bubble can never become quiescent. The throttle has no
	// bearing on any property; it is replaced by a no-op.
	utilruntime.ErrorHandlers = []func(error){func(error) {}}
	if v := os.Getenv("VERIF_KLOG"); v != "" {
		// debugging aid: the system's own log on stderr (never used by checks)
		fs.Set("logtostderr", "true")
		fs.Set("v", v)
	}
}

// Result is what one simulated run reports.
type Result struct {
	Property   string         `json:"property"`
	Preset     string         `json:"preset"`
	Seed       int64          `json:"seed"`
	Violations []Violation    `json:"violations,omitempty"`
	Steps      int            `json:"steps"`
	VirtualSec float64        `json:"virtualSec"`
	Signature  string         `json:"signature"`
	States     int            `json:"states"`
	notes      []string
	NonTrivial bool           `json:"nonTrivial"`
	Stats      map[string]int `json:"stats"`
	Faults     map[string]int `json:"faults"`
	Choices    int            `json:"choices"`
	APICalls   int            `json:"apiCalls"`
	Trace      []string       `json:"trace,omitempty"`
	Note       string         `json:"note,omitempty"`
	HarnessErr string         `json:"harnessErr,omitempty"`
	choices    []int
	callLog    []string
	summary    map[string]string
}

// Seed inserts an object directly into the API server (initial state).
func (a *SimAPI) Seed(obj runtime.Object, created time.Time) runtime.Object {
	res := resourceOf(obj)
	obj = roundTrip(res, obj)
	m := accessor(obj)
	m.SetUID(a.nextUID())
	m.SetResourceVersion(a.nextRV())
	m.SetCreationTimestamp(metav1.NewTime(created.Truncate(time.Second)))
	m.SetGeneration(1)
	a.objs[res][objKeyOf(obj)] = obj
	a.emit("ADDED", res, nil, obj, "seed", "create")
	return obj
}

func (w *World) seedObjects() {
	for i := range w.Plan.JobConfigs {
		jp := &w.Plan.JobConfigs[i]
		jc := buildJobConfig(jp)
		created := w.Epoch.Add(-time.Duration(jp.CreatedBefore) * time.Second)
		if jc.Spec.Schedule != nil && jc.Spec.Schedule.LastUpdated == nil {
			ts := metav1.NewTime(created.Truncate(time.Second))
			jc.Spec.Schedule.LastUpdated = &ts
		}
		if jp.LastScheduled != nil {
			jc.Status.LastScheduled = unixTime(*jp.LastScheduled)
		}
		w.API.Seed(jc, created)
	}
}

// RunPlan executes one plan. For the differential property C20 a fault-free
// twin of the same plan is executed first and the observable outcomes compared.
func RunPlan(t *testing.T, plan *Plan, ch *Choices, traceAll bool) (res *Result) {
	if plan.Property != "C20" || plan.Twin {
		return runPlanOnce(t, plan, ch, traceAll)
	}
	twin := *plan
	twin.Twin = true
	twin.Faults, twin.Pinned, twin.Crashes, twin.Lags, twin.Relists = nil, nil, nil, nil, nil
	twin.Sched = SchedOpts{Mode: "fair", APILatencyUs: plan.Sched.APILatencyUs}
	twin.Proc.ReadYield = false
	twin.Proc.ResyncSec = 0
	tres := runPlanOnce(t, &twin, NewChoices(1), false)
	res = runPlanOnce(t, plan, ch, traceAll)
	if tres.HarnessErr != "" {
		res.HarnessErr = "twin: " + tres.HarnessErr
		return res
	}
	if len(tres.Violations) > 0 {
		// the fault-free twin itself misbehaved: report it (it is a violation of C20's safety clause too)
		v := tres.Violations[0]
		v.Msg = "fault-free twin: " + v.Msg
		res.Violations = append([]Violation{v}, res.Violations...)
		return res
	}
	res.Stats["mon.c20.compared"]++
	if len(res.Violations) == 0 && res.summary != nil && tres.summary != nil {
		if diff := diffSummaries(tres.summary, res.summary); diff != "" {
			msg := "outcome differs from the fault-free run of the same workload: " + diff
			if len(res.notes) > 0 {
				msg += " | notes: " + strings.Join(res.notes, "; ")
			}
			res.Violations = append(res.Violations, Violation{Monitor: "C20/diverged", Step: res.Steps, Msg: msg})
		}
	}
	return res
}

func runPlanOnce(t *testing.T, plan *Plan, ch *Choices, traceAll bool) (res *Result) {
	res = &Result{Property: plan.Property, Preset: plan.Preset, Seed: plan.Seed}
	defer func() {
		if r := recover(); r != nil {
			msg := fmt.Sprint(r)
			if msg != "deadlock: main bubble goroutine has exited but blocked goroutines remain" {
				res.HarnessErr = msg
			}
		}
	}()
	synctest.Test(t, func(t *testing.T) {
		runInBubble(plan, ch, traceAll, res)
	})
	return res
}

func runInBubble(plan *Plan, ch *Choices, traceAll bool, res *Result) {
	w := NewWorld(plan, ch)
	s := w.Sim
	s.TraceAll = traceAll
	if v := os.Getenv("VERIF_STEPCAP"); v != "" {
		fmt.Sscan(v, &s.StepCap)
	}
	epoch := time.Unix(plan.EpochUnix, 0)
	w.Epoch = epoch
	s.Epoch = epoch
	if d := epoch.Sub(time.Now()); d > 0 {
		time.Sleep(d)
	}
	preset := presets[plan.Preset]
	if preset == nil {
		panic("unknown preset " + plan.Preset)
	}
	preset.setup(w)
	end := epoch.Add(time.Duration(plan.DurationSec) * time.Second)
	s.RunUntil(end)
	if !s.stopped || (s.CapHit && len(s.Viol) == 0) {
		preset.finish(w)
	}
	// teardown: let every SUT goroutine unwind.
	for _, p := range w.Procs {
		p.markDead("teardown")
	}
	synctest.Wait()
	w.reapDead()
	time.Sleep(2 * time.Second)
	synctest.Wait()
	w.reapDead()

	res.Violations = s.Viol
	res.Steps = s.Steps
	res.VirtualSec = s.Now().Sub(epoch).Seconds()
	res.Signature = fmt.Sprintf("%016x", s.Signature())
	res.States = s.DistinctStates()
	res.Stats = s.Stats
	res.Faults = s.Faults
	res.Choices = len(ch.Rec)
	res.choices = ch.Rec
	res.APICalls = s.callN
	res.notes = s.Notes
	res.NonTrivial = preset.nonTrivial(w)
	if plan.Property == "C20" && len(s.Viol) == 0 {
		res.summary = summarize(w)
	}
	if len(s.Viol) > 0 || traceAll {
		res.Trace = s.Trace()
	}
	if s.CapHit {
		res.Note = "step cap hit"
	}
}

// preset bundles the scenario-specific wiring.
type presetDef struct {
	setup      func(w *World)
	finish     func(w *World) // heal + drain + fixpoint assertions
	nonTrivial func(w *World) bool
	generate   func(seed int64, property string) *Plan
}

var presets = map[string]*presetDef{}

var _ = execution.Job{}

// summarize extracts the observable outcome of a run, ignoring time.
func summarize(w *World) map[string]string {
	out := map[string]string{}
	pods := map[string][]string{}
	for _, ev := range w.API.log[ResPods] {
		if ev.Type == "ADDED" {
			if ref := metav1.GetControllerOf(accessor(ev.Obj)); ref != nil && ref.Kind == "Job" {
				pods[ref.Name] = append(pods[ref.Name], accessor(ev.Obj).GetName())
			}
		}
	}
	last := map[string]*execution.Job{}
	deletedBy := map[string]string{}
	for _, ev := range w.API.log[ResJobs] {
		j := ev.Obj.(*execution.Job)
		if ev.Type == "ADDED" && last[ev.Key] != nil {
			// same name re-created: keep both generations distinct
			out["job-recreated "+ev.Key] = "yes"
		}
		last[ev.Key] = j
		if ev.Verb == "delete" && strings.Contains(ev.Actor, "/job/") {
			deletedBy[ev.Key] = "ttl"
		}
	}
	for key, j := range last {
		res := "unfinished:" + string(j.Status.Phase)
		if f := j.Status.Condition.Finished; f != nil {
			res = string(f.Result)
		}
		ps := append([]string{}, pods[j.Name]...)
		sort.Strings(ps)
		// collapse duplicates (a vanished unrecorded pod may be re-created under the same name)
		uniq := ps[:0]
		for i, p := range ps {
			if i == 0 || ps[i-1] != p {
				uniq = append(uniq, p)
			}
		}
		// the number of attempts is timing dependent (a retry may or may not be created before
		// another index decides the strategy); every create is judged by C08/C09's monitors instead
		_ = uniq
		out["job "+key] = fmt.Sprintf("result=%s ttlDeleted=%v exists=%v", res, deletedBy[key] == "ttl", w.API.Peek(ResJobs, j.Namespace, j.Name) != nil)
	}
	for _, o := range w.API.ListRaw(ResJobConfigs) {
		jc := o.(*execution.JobConfig)
		var a, q []string
		for _, r := range jc.Status.ActiveJobs {
			a = append(a, r.Name)
		}
		for _, r := range jc.Status.QueuedJobs {
			q = append(q, r.Name)
		}
		sort.Strings(a)
		sort.Strings(q)
		out["jobconfig "+jc.Name] = fmt.Sprintf("active=%v queued=%v", a, q)
	}
	return out
}

func diffSummaries(want, got map[string]string) string {
	var diffs []string
	keys := map[string]bool{}
	for k := range want {
		keys[k] = true
	}
	for k := range got {
		keys[k] = true
	}
	for _, k := range sortedKeys(keys) {
		if want[k] != got[k] {
			diffs = append(diffs, fmt.Sprintf("%s: fault-free {%s} vs faulty {%s}", k, want[k], got[k]))
		}
	}
	if len(diffs) > 3 {
		diffs = append(diffs[:3], fmt.Sprintf("... and %d more", len(diffs)-3))
	}
	return strings.Join(diffs, "; ")
}
