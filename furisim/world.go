package furisim

import (
	"fmt"
	"hash/fnv"
	"math/rand"
	"sort"
	"time"

	corev1 "k8s.io/api/core/v1"
	metav1 "k8s.io/apimachinery/pkg/apis/meta/v1"
	"k8s.io/apimachinery/pkg/runtime"
	"k8s.io/utils/pointer"

	configv1alpha1 "github.com/furiko-io/furiko/apis/config/v1alpha1"
	execgroup "github.com/furiko-io/furiko/apis/execution"
	execution "github.com/furiko-io/furiko/apis/execution/v1alpha1"
	"github.com/furiko-io/furiko/pkg/execution/controllers/croncontroller"
)

// World is one simulated cluster: API server, processes, environment actors,
// monitors.
type World struct {
	Sim   *Sim
	API   *SimAPI
	Plan  *Plan
	Dyn   *DynConfig
	Procs []*Proc
	Epoch time.Time

	tickIdx     int
	tickerProc  *Proc
	cronInitErr error
	resyncOff   bool
	faultsOff   bool
	pinnedFired map[int]bool
	procN       int
	ctlOpts     ProcOpts

	// monitor hooks
	onEnqueue     []func(p *Proc, jc *execution.JobConfig, t time.Time)
	onCronInit    []func(p *Proc)
	onTickStart   []func(p *Proc)
	onWorkEnd     []func(p *Proc)
	onCronQueue   []func(p *Proc, item string)
	onRefusal     []func(p *Proc, jc *execution.JobConfig, jobName, why string)
	onStoreCount  []func(p *Proc, jc *execution.JobConfig, n int64)
	onCall        []func(c *APICall)
	atFixpoint    []func()
	onUserOp      []func(op *UserOp, err error)
	onCacheChange []func(p *Proc, res Resource, key string, obj runtime.Object)
	onDeliver     []func(l *simListener, n notification)
	cronInitProc  *Proc
	Webhook       *Proc
	Track         *tracker
	foreignUIDs   map[string]string
	inDup         bool
	Mon           *fullMon
	tickerPausedAll bool
	inFixpoint    bool
	saturated     bool
	saturating    bool
	webhookLag    bool
	webhookDown   bool
	onTickerRead  func(p *Proc) bool
	Kubelet       *Kubelet
	UserLog       []string
}

func (w *World) noteEnqueue(p *Proc, jc *execution.JobConfig, t time.Time) {
	w.Sim.Stats["cron.enqueue"]++
	w.Sim.Tracef("  ENQUEUE %s/%s @%d (%s)", jc.Namespace, jc.Name, t.Unix(), t.UTC().Format(time.RFC3339))
	for _, f := range w.onEnqueue {
		f(p, jc, t)
	}
}
func (w *World) noteCronInit(p *Proc) {
	w.cronInitProc = p
}
func (w *World) noteCronQueueAdd(p *Proc, item string) {
	for _, f := range w.onCronQueue {
		f(p, item)
	}
	// queue.dup: the same (JobConfig, schedule time) key is delivered again later,
	// possibly out of order and after the Job already exists (or was cleaned up).
	if w.inDup || w.faultsOff || w.Plan.CronDupPm <= 0 || !w.Sim.ch.Flag(w.Plan.CronDupPm) {
		return
	}
	n := 1 + w.Sim.ch.Uniform(3)
	for i := 0; i < n; i++ {
		delay := []time.Duration{50 * time.Millisecond, 700 * time.Millisecond, 3 * time.Second, 11 * time.Second, 40 * time.Second}[w.Sim.ch.Uniform(5)]
		w.Sim.After(delay, "queue.dup "+item, func() {
			c := w.controller()
			if c == nil || c.cronQueue == nil || w.faultsOff {
				return
			}
			w.Sim.Faults["queue.dup"]++
			w.inDup = true
			c.cronQueue.Add(item)
			w.inDup = false
		})
	}
}
func (w *World) noteCronRefusal(p *Proc, jc *execution.JobConfig, jobName, why string) {
	w.Sim.Stats["cron.refusal"]++
	w.Sim.Tracef("  CRON-REFUSAL %s/%s: %s", jc.Namespace, jobName, why)
	for _, f := range w.onRefusal {
		f(p, jc, jobName, why)
	}
}
func (w *World) noteStoreCount(p *Proc, jc *execution.JobConfig, n int64) {
	for _, f := range w.onStoreCount {
		f(p, jc, n)
	}
}

func (w *World) nextTickJitter() time.Duration {
	j := w.Plan.TickJitter
	if len(j) == 0 {
		return 0
	}
	v := j[w.tickIdx%len(j)]
	w.tickIdx++
	if v > 0 {
		w.Sim.Stats["tick.jitter"]++
		if v >= 1000 {
			w.Sim.Stats["tick.late_1s+"]++
		}
		if v >= 60000 {
			w.Sim.Faults["proc.stall"]++
		}
	}
	return time.Duration(v) * time.Millisecond
}

func (w *World) at(ms int64) time.Time { return w.Epoch.Add(time.Duration(ms) * time.Millisecond) }

// ---------------------------------------------------------------------------
// dynamic config

func applyDyn(dc *DynConfig, d *DynPlan) {
	dc.Cron = configv1alpha1.CronExecutionConfig{
		CronFormat:                  d.CronFormat,
		CronHashNames:               d.HashNames,
		CronHashSecondsByDefault:    d.HashSecondsByDefault,
		CronHashFields:              d.HashFields,
		DefaultTimezone:             d.DefaultTimezone,
		MaxMissedSchedules:          d.MaxMissedSchedules,
		MaxDowntimeThresholdSeconds: d.MaxDowntimeSec,
	}
	if dc.Cron.CronFormat == "" {
		dc.Cron.CronFormat = "standard"
	}
	dc.Jobs = configv1alpha1.JobExecutionConfig{
		DefaultTTLSecondsAfterFinished: d.DefaultTTLSec,
		DefaultPendingTimeoutSeconds:   d.DefaultPendingSec,
		ForceDeleteTaskTimeoutSeconds:  d.ForceDeleteSec,
	}
	dc.JobConfigs = configv1alpha1.JobConfigExecutionConfig{MaxEnqueuedJobs: d.MaxEnqueuedJobs}
}

// ---------------------------------------------------------------------------
// object builders

func unixTime(u int64) *metav1.Time { t := metav1.NewTime(time.Unix(u, 0)); return &t }

func buildTemplate(tp *JobTemplatePlan) execution.JobTemplate {
	t := execution.JobTemplate{
		TaskTemplate: execution.TaskTemplate{Pod: &execution.PodTemplateSpec{
			Spec: corev1.PodSpec{
				Containers:    []corev1.Container{{Name: "c", Image: "busybox", Args: []string{"echo", "hi"}}},
				RestartPolicy: corev1.RestartPolicyNever,
			},
		}},
		ForbidTaskForceDeletion: tp.ForbidForce,
	}
	if tp.GraceSec != nil {
		t.TaskTemplate.Pod.Spec.TerminationGracePeriodSeconds = tp.GraceSec
	}
	if tp.MaxAttempts > 0 {
		t.MaxAttempts = pointer.Int64(tp.MaxAttempts)
	}
	if tp.RetryDelaySec > 0 {
		t.RetryDelaySeconds = pointer.Int64(tp.RetryDelaySec)
	}
	if tp.PendingSec != nil {
		t.TaskPendingTimeoutSeconds = tp.PendingSec
	}
	if tp.Count > 0 || len(tp.Keys) > 0 || len(tp.Matrix) > 0 {
		par := &execution.ParallelismSpec{CompletionStrategy: execution.ParallelCompletionStrategy(tp.Strategy)}
		switch {
		case tp.Count > 0:
			par.WithCount = pointer.Int64(int64(tp.Count))
		case len(tp.Keys) > 0:
			par.WithKeys = append([]string{}, tp.Keys...)
		default:
			par.WithMatrix = map[string][]string{}
			for k, v := range tp.Matrix {
				par.WithMatrix[k] = append([]string{}, v...)
			}
		}
		t.Parallelism = par
	}
	return t
}

func buildJobConfig(jp *JobConfigPlan) *execution.JobConfig {
	jc := &execution.JobConfig{
		TypeMeta:   metav1.TypeMeta{APIVersion: "execution.furiko.io/v1alpha1", Kind: "JobConfig"},
		ObjectMeta: metav1.ObjectMeta{Namespace: jp.NS, Name: jp.Name},
		Spec: execution.JobConfigSpec{
			Template:    execution.JobTemplateSpec{Spec: buildTemplate(&jp.Template)},
			Concurrency: execution.ConcurrencySpec{Policy: execution.ConcurrencyPolicy(jp.Policy), MaxConcurrency: jp.MaxConcurrency},
		},
	}
	if len(jp.TemplateLabels) > 0 {
		jc.Spec.Template.ObjectMeta.Labels = map[string]string{}
		for k, v := range jp.TemplateLabels {
			jc.Spec.Template.ObjectMeta.Labels[k] = v
		}
	}
	if len(jp.TemplateAnnotations) > 0 {
		jc.Spec.Template.ObjectMeta.Annotations = map[string]string{}
		for k, v := range jp.TemplateAnnotations {
			jc.Spec.Template.ObjectMeta.Annotations[k] = v
		}
	}
	if jc.Spec.Concurrency.Policy == "" {
		jc.Spec.Concurrency.Policy = execution.ConcurrencyPolicyAllow
	}
	if jp.Template.TTLSec != nil {
		// JobConfig template has no TTL field; TTL comes from the Job spec or dynamic config.
	}
	if !jp.NoSchedule {
		sch := &execution.ScheduleSpec{Disabled: jp.Disabled}
		if len(jp.Cron) == 1 {
			sch.Cron = &execution.CronSchedule{Expression: jp.Cron[0], Timezone: jp.Timezone}
		} else if len(jp.Cron) > 1 {
			sch.Cron = &execution.CronSchedule{Expressions: append([]string{}, jp.Cron...), Timezone: jp.Timezone}
		}
		if jp.NotBefore != nil || jp.NotAfter != nil {
			sch.Constraints = &execution.ScheduleContraints{}
			if jp.NotBefore != nil {
				sch.Constraints.NotBefore = unixTime(*jp.NotBefore)
			}
			if jp.NotAfter != nil {
				sch.Constraints.NotAfter = unixTime(*jp.NotAfter)
			}
		}
		if jp.LastUpdated != nil {
			sch.LastUpdated = unixTime(*jp.LastUpdated)
		}
		jc.Spec.Schedule = sch
	}
	return jc
}

func (w *World) buildJob(jp *JobPlan) *execution.Job {
	j := &execution.Job{
		TypeMeta:   metav1.TypeMeta{APIVersion: "execution.furiko.io/v1alpha1", Kind: "Job"},
		ObjectMeta: metav1.ObjectMeta{Namespace: jp.NS, Name: jp.Name},
		Spec:       execution.JobSpec{ConfigName: jp.ConfigName, TTLSecondsAfterFinished: jp.TTLSec},
	}
	if jp.Template != nil {
		t := buildTemplate(jp.Template)
		j.Spec.Template = &t
	}
	if jp.Policy != "" || jp.StartAfter != nil {
		pol := execution.ConcurrencyPolicy(jp.Policy)
		if pol == "" && jp.ConfigName == "" {
			// an independent Job has no JobConfig to take the policy from; the validating
			// webhook requires one as soon as a start policy is given
			pol = execution.ConcurrencyPolicyAllow
		}
		j.Spec.StartPolicy = &execution.StartPolicySpec{ConcurrencyPolicy: pol}
		if jp.StartAfter != nil {
			ts := metav1.NewTime(w.Sim.Now().Add(time.Duration(*jp.StartAfter) * time.Millisecond).Truncate(time.Second))
			j.Spec.StartPolicy.StartAfter = &ts
		}
	}
	return j
}

// ---------------------------------------------------------------------------
// user actor

func (w *World) scheduleUserOps() {
	for i := range w.Plan.Ops {
		op := &w.Plan.Ops[i]
		w.Sim.At(w.at(op.AtMs), fmt.Sprintf("user/%03d %s %s", i, op.Kind, op.Name), func() { w.doUserOp(op) })
	}
}

func (w *World) doUserOp(op *UserOp) {
	api := w.API
	var err error
	switch op.Kind {
	case "createJobConfig":
		_, err = api.Create("user", buildJobConfig(op.JC))
	case "updateSchedule", "setDisabled", "removeSchedule", "setConstraints", "touchJobConfig", "setMaxConcurrency":
		cur := api.Peek(ResJobConfigs, op.NS, op.Name)
		if cur == nil {
			err = fmt.Errorf("not found")
			break
		}
		jc := cur.(*execution.JobConfig).DeepCopy()
		switch op.Kind {
		case "updateSchedule":
			if jc.Spec.Schedule == nil {
				jc.Spec.Schedule = &execution.ScheduleSpec{}
			}
			tz := ""
			if jc.Spec.Schedule.Cron != nil {
				tz = jc.Spec.Schedule.Cron.Timezone
			}
			if op.TZ != nil {
				tz = *op.TZ
			}
			if len(op.Cron) == 1 {
				jc.Spec.Schedule.Cron = &execution.CronSchedule{Expression: op.Cron[0], Timezone: tz}
			} else {
				jc.Spec.Schedule.Cron = &execution.CronSchedule{Expressions: append([]string{}, op.Cron...), Timezone: tz}
			}
		case "setDisabled":
			if jc.Spec.Schedule == nil {
				err = fmt.Errorf("no schedule")
				break
			}
			jc.Spec.Schedule.Disabled = op.Bool
		case "removeSchedule":
			jc.Spec.Schedule = nil
		case "setConstraints":
			if jc.Spec.Schedule == nil {
				err = fmt.Errorf("no schedule")
				break
			}
			if op.ClearConstraints {
				jc.Spec.Schedule.Constraints = nil
			} else {
				c := &execution.ScheduleContraints{}
				if op.NotBefore != nil {
					c.NotBefore = unixTime(*op.NotBefore)
				}
				if op.NotAfter != nil {
					c.NotAfter = unixTime(*op.NotAfter)
				}
				jc.Spec.Schedule.Constraints = c
			}
		case "touchJobConfig":
			if jc.Annotations == nil {
				jc.Annotations = map[string]string{}
			}
			jc.Annotations["touched"] = fmt.Sprint(w.Sim.Steps)
		case "setMaxConcurrency":
			jc.Spec.Concurrency.MaxConcurrency = pointer.Int64(op.OffMs)
		}
		if err == nil {
			_, err = api.Update("user", jc)
		}
	case "deleteJobConfig":
		err = api.Delete("user", ResJobConfigs, op.NS, op.Name, metav1.DeleteOptions{})
	case "createJob":
		_, err = api.Create("user", w.buildJob(op.Job))
	case "killJob":
		cur := api.Peek(ResJobs, op.NS, op.Name)
		if cur == nil {
			err = fmt.Errorf("not found")
			break
		}
		j := cur.(*execution.Job).DeepCopy()
		ts := metav1.NewTime(w.Sim.Now().Add(time.Duration(op.OffMs) * time.Millisecond).Truncate(time.Second))
		j.Spec.KillTimestamp = &ts
		_, err = api.Update("user", j)
	case "unkillJob":
		cur := api.Peek(ResJobs, op.NS, op.Name)
		if cur == nil {
			err = fmt.Errorf("not found")
			break
		}
		j := cur.(*execution.Job).DeepCopy()
		if j.Spec.KillTimestamp == nil {
			err = fmt.Errorf("no kill timestamp")
			break
		}
		if op.OffMs > 0 {
			ts := metav1.NewTime(w.Sim.Now().Add(time.Duration(op.OffMs) * time.Millisecond).Truncate(time.Second))
			j.Spec.KillTimestamp = &ts
		} else {
			j.Spec.KillTimestamp = nil
		}
		_, err = api.Update("user", j)
	case "deleteJob":
		err = api.Delete("user", ResJobs, op.NS, op.Name, metav1.DeleteOptions{})
	case "killAny", "deleteAny":
		jobs := api.ListRaw(ResJobs)
		if len(jobs) == 0 {
			err = fmt.Errorf("no jobs")
			break
		}
		j := jobs[int(op.OffMs)%len(jobs)].(*execution.Job)
		if op.Kind == "deleteAny" {
			err = api.Delete("user", ResJobs, j.Namespace, j.Name, metav1.DeleteOptions{})
		} else {
			jj := j.DeepCopy()
			ts := metav1.NewTime(w.Sim.Now().Truncate(time.Second))
			jj.Spec.KillTimestamp = &ts
			_, err = api.Update("user", jj)
		}
	case "deletePod":
		err = api.Delete("user", ResPods, op.NS, op.Name, metav1.DeleteOptions{})
	case "setConfig":
		applyDyn(w.Dyn, op.Dyn)
		w.Sim.Faults["config.change"]++
	default:
		panic("unknown user op " + op.Kind)
	}
	w.Sim.Stats["user."+op.Kind]++
	if err != nil {
		w.Sim.Stats["user.rejected"]++
		w.Sim.Tracef("  USER %s %s/%s -> %v", op.Kind, op.NS, op.Name, err)
	}
	for _, f := range w.onUserOp {
		f(op, err)
	}
}

// ---------------------------------------------------------------------------
// garbage collector actor

func controllerOwner(o metav1.Object) *metav1.OwnerReference { return metav1.GetControllerOf(o) }

func (w *World) startGC() {
	delay := time.Duration(w.Plan.GCDelayMs) * time.Millisecond
	if delay <= 0 {
		delay = 500 * time.Millisecond
	}
	ownerExists := func(ns string, ref *metav1.OwnerReference) bool {
		var res Resource
		switch ref.Kind {
		case "JobConfig":
			res = ResJobConfigs
		case "Job":
			res = ResJobs
		default:
			return true
		}
		o := w.API.Peek(res, ns, ref.Name)
		return o != nil && accessor(o).GetUID() == ref.UID
	}
	sweep := func(ns, name string, res Resource, uid string) {
		w.Sim.After(delay, fmt.Sprintf("gc %s %s/%s", res, ns, name), func() {
			o := w.API.Peek(res, ns, name)
			if o == nil || string(accessor(o).GetUID()) != uid {
				return
			}
			ref := controllerOwner(accessor(o))
			if ref == nil || ownerExists(ns, ref) || accessor(o).GetLabels()["foreign"] == "true" {
				return
			}
			w.Sim.Stats["gc.delete."+string(res)]++
			bg := metav1.DeletePropagationBackground
			_ = w.API.Delete("gc", res, ns, name, metav1.DeleteOptions{PropagationPolicy: &bg})
		})
	}
	w.API.Listen(func(ev *APIEvent) {
		switch ev.Type {
		case "DELETED":
			if ev.Res == ResPods {
				return
			}
			uid := accessor(ev.Obj).GetUID()
			child := ResJobs
			if ev.Res == ResJobs {
				child = ResPods
			}
			for _, o := range w.API.ListRaw(child) {
				m := accessor(o)
				if ref := controllerOwner(m); ref != nil && ref.UID == uid {
					sweep(m.GetNamespace(), m.GetName(), child, string(m.GetUID()))
				}
			}
		case "ADDED":
			if ev.Res == ResJobConfigs {
				return
			}
			m := accessor(ev.Obj)
			if ref := controllerOwner(m); ref != nil && !ownerExists(m.GetNamespace(), ref) {
				sweep(m.GetNamespace(), m.GetName(), ev.Res, string(m.GetUID()))
			}
		}
	})
}

// ---------------------------------------------------------------------------
// faults

func (w *World) decideFault(p *Proc, c *APICall) string {
	if w.faultsOff {
		return ""
	}
	for i := range w.Plan.Pinned {
		pf := &w.Plan.Pinned[i]
		if pf.AfterMs > 0 {
			if !w.pinnedFired[i] && w.Sim.Now().Sub(w.Epoch).Milliseconds() >= pf.AfterMs &&
				(pf.Ctrl == "" || pf.Ctrl == c.Ctrl) && (pf.Verb == "" || pf.Verb == c.Verb) && (pf.Res == "" || pf.Res == string(c.Res)) {
				if w.pinnedFired == nil {
					w.pinnedFired = map[int]bool{}
				}
				w.pinnedFired[i] = true
				return w.firePinned(p, pf)
			}
			continue
		}
		if pf.N > 0 {
			if pf.N == c.N {
				return w.firePinned(p, pf)
			}
			continue
		}
		if pf.KindN > 0 && pf.KindN == c.KindN && (pf.Ctrl == "" || pf.Ctrl == c.Ctrl) && (pf.Verb == "" || pf.Verb == c.Verb) && (pf.Res == "" || pf.Res == string(c.Res)) {
			return w.firePinned(p, pf)
		}
	}
	nowMs := w.Sim.Now().Sub(w.Epoch).Milliseconds()
	for i := range w.Plan.Faults {
		fw := &w.Plan.Faults[i]
		if nowMs < fw.StartMs || nowMs >= fw.EndMs {
			continue
		}
		if len(fw.Ctrl) > 0 {
			ok := false
			for _, x := range fw.Ctrl {
				if x == c.Ctrl {
					ok = true
				}
			}
			if !ok {
				continue
			}
		}
		v := w.Sim.ch.draw(4, func(r *rand.Rand) int {
			x := r.Intn(1000)
			switch {
			case x < fw.DropPm:
				return 1
			case x < fw.DropPm+fw.LostAckPm:
				return 2
			case x < fw.DropPm+fw.LostAckPm+fw.ConflictPm:
				return 3
			}
			return 0
		})
		switch v {
		case 1:
			return []string{"drop", "unavailable", "throttle"}[c.N%3]
		case 2:
			return "lostack"
		case 3:
			return "conflict"
		}
		return ""
	}
	return ""
}

func (w *World) firePinned(p *Proc, pf *PinnedFault) string {
	w.Sim.Stats["pinned."+pf.Fault]++
	if pf.Fault == "crash-before" || pf.Fault == "crash-after" {
		down := pf.RestartMs
		if down <= 0 {
			down = 1000
		}
		w.Sim.After(time.Duration(down)*time.Millisecond, "restart", func() { w.restartController() })
	}
	return pf.Fault
}

func (w *World) scheduleCrashes() {
	for i := range w.Plan.Crashes {
		cp := w.Plan.Crashes[i]
		w.Sim.At(w.at(cp.AtMs), fmt.Sprintf("crash/%d", i), func() {
			if w.faultsOff {
				return
			}
			if p := w.controller(); p != nil {
				p.crash("planned crash")
				w.Sim.After(time.Duration(cp.DownMs)*time.Millisecond, "restart", func() { w.restartController() })
			}
		})
	}
	for i := range w.Plan.Lags {
		lp := w.Plan.Lags[i]
		w.Sim.At(w.at(lp.AtMs), fmt.Sprintf("lag/%d %s", i, lp.Res), func() {
			if w.faultsOff {
				return
			}
			if p := w.controller(); p != nil {
				p.held[Resource(lp.Res)] = w.Sim.Now().Add(time.Duration(lp.DurMs) * time.Millisecond)
				w.Sim.Faults["watch.lag"]++
				// make sure time-based release is noticed
				w.Sim.After(time.Duration(lp.DurMs)*time.Millisecond, "lag-end", func() {})
			}
		})
	}
	for i := range w.Plan.WebhookDown {
		wd := w.Plan.WebhookDown[i]
		w.Sim.At(w.at(wd.AtMs), fmt.Sprintf("webhook-down/%d", i), func() {
			if w.faultsOff {
				return
			}
			w.webhookDown = true
			w.Sim.After(time.Duration(wd.DurMs)*time.Millisecond, "webhook-up", func() { w.webhookDown = false })
		})
	}
	for i := range w.Plan.Relists {
		rp := w.Plan.Relists[i]
		w.Sim.At(w.at(rp.AtMs), fmt.Sprintf("relist/%d %s", i, rp.Res), func() {
			if w.faultsOff {
				return
			}
			if p := w.controller(); p != nil {
				if inf := p.informers[Resource(rp.Res)]; inf != nil && inf.synced {
					inf.broken = true
				}
			}
		})
	}
}

// controller returns the live controller process, if any.
func (w *World) controller() *Proc {
	for i := len(w.Procs) - 1; i >= 0; i-- {
		if !w.Procs[i].dead {
			return w.Procs[i]
		}
	}
	return nil
}

func (w *World) restartController() {
	if w.controller() != nil {
		return
	}
	w.procN++
	w.Sim.Faults["proc.restart"]++
	w.StartProc(fmt.Sprintf("ctl%d", w.procN), w.ctlOpts)
}

// createForeignPod places a Pod that does not belong to the Job under a task's
// deterministic name.
func (w *World) createForeignPod(fp *ForeignPod) {
	pod := &corev1.Pod{ObjectMeta: metav1.ObjectMeta{Namespace: fp.NS, Name: fp.Name, Labels: map[string]string{"foreign": "true"}},
		Spec: corev1.PodSpec{NodeName: "node-foreign", Containers: []corev1.Container{{Name: "c", Image: "busybox"}}}}
	if fp.OwnerJob != "" {
		ctrl := true
		if fp.OwnerJob == "other" {
			// controlled by something that is not a Job at all
			pod.OwnerReferences = []metav1.OwnerReference{{APIVersion: "apps/v1", Kind: "ReplicaSet", Name: fp.OwnerJob, UID: "uid-foreign-owner", Controller: &ctrl}}
		} else {
			// controlled by another Job object of the same name (e.g. an earlier incarnation)
			pod.OwnerReferences = []metav1.OwnerReference{{APIVersion: "execution.furiko.io/v1alpha1", Kind: "Job", Name: fp.OwnerJob, UID: "uid-earlier-incarnation", Controller: &ctrl}}
		}
	}
	created, err := w.API.Create("foreign", pod)
	if err != nil {
		w.Sim.Tracef("  foreign pod create: %v", err)
		return
	}
	if w.foreignUIDs == nil {
		w.foreignUIDs = map[string]string{}
	}
	w.foreignUIDs[string(accessor(created).GetUID())] = fp.NS + "/" + fp.Name
}

// reapDead lets goroutines of crashed processes unwind (scheduler goroutine).
func (w *World) reapDead() {
	for _, p := range w.Procs {
		if p.dead {
			p.reap()
		}
	}
}

// ---------------------------------------------------------------------------
// helpers

func hashStr(s string) uint64 {
	h := fnv.New64a()
	h.Write([]byte(s))
	return h.Sum64()
}

func sortedKeys[V any](m map[string]V) []string {
	keys := make([]string, 0, len(m))
	for k := range m {
		keys = append(keys, k)
	}
	sort.Strings(keys)
	return keys
}

// NewWorld builds the world for a plan (inside the bubble).
func NewWorld(plan *Plan, ch *Choices) *World {
	s := NewSim(ch)
	w := &World{Sim: s, Plan: plan, Dyn: &DynConfig{}}
	w.API = NewSimAPI(s)
	applyDyn(w.Dyn, &plan.Dyn)
	if plan.Sched.Mode != "" {
		s.Mode = plan.Sched.Mode
	}
	if plan.Sched.FifoBias > 0 {
		s.FifoBias = plan.Sched.FifoBias
	}
	s.StallPm = plan.Sched.StallPm
	s.APILatency = time.Duration(plan.Sched.APILatencyUs) * time.Microsecond
	s.FaultFn = w.decideFault
	s.CallHook = func(c *APICall) {
		for _, f := range w.onCall {
			f(c)
		}
	}
	s.AddActionSource(func(add func(Action)) {
		for _, p := range w.Procs {
			p.informerActions(add)
			for _, q := range p.queues {
				q.actions(add)
			}
		}
	})
	s.AddAfterStep(w.reapDead)
	croncontroller.Clock = &simClock{w: w}
	w.ctlOpts = plan.Proc
	return w
}

var _ = runtime.Object(nil)
var _ = execgroup.GroupName
