#!/usr/bin/env python3
"""Checks for false alarms on behaviour-preserving changes: a sub-agent's patch
that is argued to keep every property is applied in a scratch worktree and the
quick checks of the properties its area touches are run against it. Any
VIOLATION is then triaged by hand: either the change is not preserving after
all (then it is a seeded change that was caught) or the check demands more than
the property states (then the check is corrected).

  neutral_eval.py <src_dir> <id> <prop,prop,...>

Writes /verif/seeded/<id>/{patch.diff, meta.json}.
"""
import json, os, shutil, subprocess, sys, time

REPO = "/repo"
ROOT = os.path.dirname(os.path.abspath(__file__))


def sh(cmd, cwd=None, timeout=7200, env=None):
    e = dict(os.environ)
    if env:
        e.update(env)
    r = subprocess.run(cmd, shell=True, cwd=cwd, stdout=subprocess.PIPE, stderr=subprocess.STDOUT, text=True, timeout=timeout, env=e)
    return r.returncode, r.stdout


def main():
    src, mid, props = os.path.abspath(sys.argv[1]), sys.argv[2], sys.argv[3].split(",")
    meta = json.load(open(os.path.join(src, "meta.json")))
    wt, work = "/tmp/mv/%s" % mid, "/tmp/mvw/%s" % mid
    out = os.path.join(ROOT, "seeded", mid)
    os.makedirs(out, exist_ok=True)
    sh("git -C %s worktree remove --force %s" % (REPO, wt))
    shutil.rmtree(wt, ignore_errors=True)
    sh("git -C %s worktree add --detach %s HEAD" % (REPO, wt))
    head = sh("git -C %s rev-parse --short HEAD" % REPO)[1].strip()
    shutil.copy(os.path.join(src, "patch.diff"), os.path.join(out, "patch.diff"))
    ran = []
    rc, o = sh("git -C %s apply %s" % (wt, os.path.join(src, "patch.diff")))
    ran.append({"step": "apply", "exit": rc, "tail": o[-300:]})
    res = {"id": mid, "kind": "neutral", "property": ",".join(props), "summary": meta.get("summary"), "change_kind": meta.get("kind"),
           "why_preserving": meta.get("why_preserving"), "observable_difference": meta.get("observable_difference"), "files": meta.get("files"),
           "confirmed": {"applies": rc == 0, "repo_head": head}, "what_was_run": ran}
    if rc == 0:
        rc, o = sh("go build ./pkg/... ./cmd/...", cwd=wt, timeout=1200)
        res["confirmed"]["builds"] = rc == 0
        ran.append({"step": "build", "exit": rc, "tail": o[-300:]})
        pk = sorted(set(os.path.dirname(f) for f in (meta.get("files") or []) if f.endswith(".go")))
        if pk:
            rc, o = sh("go test -count=1 %s 2>&1 | tail -15" % " ".join("./" + p for p in pk), cwd=wt, timeout=1800)
            fails = [l for l in o.splitlines() if l.startswith("FAIL") or l.startswith("--- FAIL")]
            res["confirmed"]["touched_package_tests_pass"] = not fails
            ran.append({"step": "tests of touched packages", "exit": 1 if fails else 0, "tail": o[-400:]})
        checks = {}
        for p in props:
            t0 = time.time()
            rc, o = sh("%s/verif check %s --tier quick" % (ROOT, p), cwd=ROOT, env={"VERIF_REPO": wt, "VERIF_WORKDIR": work})
            lines = [l for l in o.splitlines() if l.startswith("VIOLATION") or l.startswith("  monitor=") or " quick:" in l]
            checks[p] = {"exit": rc, "wall_s": round(time.time() - t0, 1), "lines": lines[:6]}
            ran.append({"step": "verif check %s (quick)" % p, "exit": rc, "tail": "\n".join(lines)[-500:]})
            for l in lines:
                if "replay=" in l:
                    rp = l.split("replay=")[1].split()[0]
                    if os.path.exists(rp):
                        shutil.copy(rp, os.path.join(out, "alarm-%s.json" % p))
                    break
        res["checks"] = checks
        res["alarms"] = sorted(p for p, v in checks.items() if v["exit"] == 1)
        res["trouble"] = sorted(p for p, v in checks.items() if v["exit"] not in (0, 1))
    json.dump(res, open(os.path.join(out, "meta.json"), "w"), indent=1)
    print("[%s] applies=%s builds=%s alarms=%s trouble=%s" % (mid, res["confirmed"].get("applies"), res["confirmed"].get("builds"), res.get("alarms"), res.get("trouble")), flush=True)
    sh("git -C %s worktree remove --force %s" % (REPO, wt))
    shutil.rmtree(wt, ignore_errors=True)
    shutil.rmtree(work, ignore_errors=True)
    sh("git -C %s worktree prune" % REPO)


if __name__ == "__main__":
    main()
