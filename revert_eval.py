#!/usr/bin/env python3
"""Sensitivity check against the most realistic regression there is: each of the
`fix:` commits in /repo is reverted (alone) in a scratch worktree of the current
HEAD, and the quick check of its property is run against that worktree.

  revert_eval.py [--tier quick|thorough] [--budget S] [id ...]

Writes /verif/seeded/revert-<id>/meta.json (same layout as seeded_eval.py; the
"patch" is the reverse diff). Nothing is applied to /repo.
"""
import json, os, re, shutil, subprocess, sys, time

ROOT = os.path.dirname(os.path.abspath(__file__))
REPO = "/repo"


def sh(cmd, cwd=None, timeout=7200, env=None):
    e = dict(os.environ)
    if env:
        e.update(env)
    r = subprocess.run(cmd, shell=True, cwd=cwd, stdout=subprocess.PIPE, stderr=subprocess.STDOUT, text=True, timeout=timeout, env=e)
    return r.returncode, r.stdout


def main():
    args = sys.argv[1:]
    tier, budget = "quick", 0
    if "--tier" in args:
        i = args.index("--tier"); tier = args[i + 1]; del args[i:i + 2]
    if "--budget" in args:
        i = args.index("--budget"); budget = float(args[i + 1]); del args[i:i + 2]
    kf = json.load(open(os.path.join(ROOT, "known_findings.json")))["findings"]
    todo = []
    for f in kf:
        if f.get("status") != "fixed":
            continue
        fid = f["id"].split("-")[0]
        if args and fid not in args:
            continue
        commits = [c.strip() for c in re.split(r"[,+ ]+", f["commit"]) if c.strip()]
        # later fixes that build on the same lines have to be reverted with it (oldest first in this list)
        commits += {"F3": ["17d0b5a"], "F2": ["3713dc3", "a629afe", "929d2b3"], "F15": ["929d2b3"]}.get(fid, [])
        todo.append((fid, f, commits))
    for fid, f, commits in todo:
        mid = "revert-%s" % fid
        wt = "/tmp/mv/%s" % mid
        work = "/tmp/mvw/%s" % mid
        out = os.path.join(ROOT, "seeded", mid)
        os.makedirs(out, exist_ok=True)
        sh("git -C %s worktree remove --force %s" % (REPO, wt))
        shutil.rmtree(wt, ignore_errors=True)
        sh("git -C %s worktree add --detach %s HEAD" % (REPO, wt))
        head = sh("git -C %s rev-parse --short HEAD" % REPO)[1].strip()
        ran = []
        ok = True
        for c in reversed(commits):
            rc, o = sh("git -C %s revert --no-commit %s" % (wt, c))
            ran.append({"step": "git revert --no-commit %s" % c, "exit": rc, "tail": o[-300:]})
            if rc != 0:
                ok = False
                break
        meta = {"id": mid, "property": f["property"], "summary": "revert of %s (%s): %s" % (f["id"], f["commit"], f["fixed"][:220]),
                "confirmed": {"applies": ok, "repo_head": head}, "what_was_run": ran}
        if ok:
            rc, o = sh("git -C %s diff HEAD > %s/patch.diff; go build ./pkg/... ./cmd/..." % (wt, out), cwd=wt, timeout=1200)
            meta["confirmed"]["builds"] = rc == 0
            ran.append({"step": "build", "exit": rc, "tail": o[-300:]})
            props = [f["property"]] + [p for p in f.get("also_check", [])]
            checks = {}
            for p in props:
                cmd = "%s/verif check %s --tier %s" % (ROOT, p, tier)
                if budget:
                    cmd += " --budget %g" % budget
                t0 = time.time()
                rc, o = sh(cmd, cwd=ROOT, env={"VERIF_REPO": wt, "VERIF_WORKDIR": work})
                lines = [l for l in o.splitlines() if l.startswith("VIOLATION") or l.startswith("  monitor=") or (" %s:" % tier) in l]
                checks[p] = {"exit": rc, "wall_s": round(time.time() - t0, 1), "lines": lines[:6]}
                ran.append({"step": "verif check %s (%s)" % (p, tier), "exit": rc, "tail": "\n".join(lines)[-600:]})
            meta["checks"] = checks
            meta["detected"] = any(v["exit"] == 1 for v in checks.values())
        json.dump(meta, open(os.path.join(out, "meta.json"), "w"), indent=1)
        print("[%s] applies=%s detected=%s %s" % (mid, ok, meta.get("detected"), {p: v["exit"] for p, v in meta.get("checks", {}).items()}), flush=True)
        sh("git -C %s worktree remove --force %s" % (REPO, wt))
        shutil.rmtree(wt, ignore_errors=True)
        shutil.rmtree(work, ignore_errors=True)
    sh("git -C %s worktree prune" % REPO)


if __name__ == "__main__":
    main()
