#!/usr/bin/env python3
"""Evaluates one seeded change (a sub-agent's patch that breaks a property):
confirms that it applies, builds, passes the existing suite, that its demo
fails with and passes without the patch, then runs /verif's check for the
property against a scratch worktree carrying the patch.

  seeded_eval.py <src_dir> <id> [--skip-suite] [--tier quick|thorough] [--budget S] [--runs N]

Writes /verif/seeded/<id>/{patch.diff, demo files, how_to_run.txt, meta.json}.
Nothing is ever applied to /repo itself.
"""
import argparse, json, os, re, shutil, subprocess, sys, time

REPO = "/repo"
ROOT = os.path.dirname(os.path.abspath(__file__))


def sh(cmd, cwd=None, timeout=3600, env=None):
    e = dict(os.environ)
    if env:
        e.update(env)
    try:
        r = subprocess.run(cmd, shell=True, cwd=cwd, stdout=subprocess.PIPE, stderr=subprocess.STDOUT, text=True, timeout=timeout, env=e)
        return r.returncode, r.stdout
    except subprocess.TimeoutExpired as ex:
        return 124, (ex.stdout or "") if isinstance(ex.stdout, str) else "timeout"


def main():
    ap = argparse.ArgumentParser()
    ap.add_argument("src")
    ap.add_argument("id")
    ap.add_argument("--skip-suite", action="store_true")
    ap.add_argument("--skip-check", action="store_true")
    ap.add_argument("--tier", default="quick")
    ap.add_argument("--runs", type=int, default=0)
    ap.add_argument("--budget", type=float, default=0)
    ap.add_argument("--property", default="")
    ap.add_argument("--also", default="", help="comma separated extra properties to check")
    args = ap.parse_args()
    src = os.path.abspath(args.src)
    mid = args.id
    meta = json.load(open(os.path.join(src, "meta.json")))
    prop = args.property or meta["property"]
    wt = "/tmp/mv/%s" % mid
    work = "/tmp/mvw/%s" % mid
    out = os.path.join(ROOT, "seeded", mid)
    os.makedirs(out, exist_ok=True)
    result = {"id": mid, "property": prop, "source": src, "agent_meta": meta, "ran": []}

    def note(step, rc, tail):
        result["ran"].append({"step": step, "exit": rc, "tail": tail[-600:]})
        print("[%s] %s -> %s" % (mid, step, rc), flush=True)

    sh("git -C %s worktree remove --force %s" % (REPO, wt))
    shutil.rmtree(wt, ignore_errors=True)
    rc, o = sh("git -C %s worktree add --detach %s HEAD" % (REPO, wt))
    note("worktree add", rc, o)
    if rc != 0:
        return finish(result, out, wt, work)
    result["repo_head"] = sh("git -C %s rev-parse --short HEAD" % REPO)[1].strip()
    patch = os.path.join(src, "patch.diff")
    shutil.copy(patch, os.path.join(out, "patch.diff"))
    for f in os.listdir(src):
        if f not in ("patch.diff", "meta.json"):
            p = os.path.join(src, f)
            if os.path.isfile(p):
                shutil.copy(p, os.path.join(out, f))
    rc, o = sh("git -C %s apply --check %s" % (wt, patch))
    note("apply --check on current HEAD", rc, o)
    result["applies"] = rc == 0
    if rc != 0:
        return finish(result, out, wt, work)
    # demo command: find the destination of the demo file and the go test command in the
    # agent's (free-form) how_to_run.txt and rewrite the agent's worktree path to ours
    how = open(os.path.join(src, "how_to_run.txt")).read()
    m = re.search(r"/tmp/mut/[A-Z]\d+", how)
    agent_wt = m.group(0) if m else "/tmp/mut/AX"
    dests = re.findall(re.escape(agent_wt) + r"/(\S+?_test\.go)", how)
    demos = sorted(f for f in os.listdir(src) if f.endswith("_test.go"))
    gm = re.search(r"(go test [^()#\n]*?)(?:\s{2,}|\s*\(|\s*#|\s*$|\n)", how)
    gotest = gm.group(1).strip() if gm else ""
    parts = []
    if dests and demos:
        for i, d in enumerate(dict.fromkeys(dests)):
            srcf = demos[min(i, len(demos) - 1)]
            parts.append("cp %s %s" % (os.path.join(src, srcf), os.path.join(wt, d)))
    elif demos:
        # no explicit destination: look for a package directory mentioned in the go test command
        pm = re.search(r"\./(pkg/\S+?)/?(?:\s|$)", gotest)
        if pm:
            parts.append("cp %s %s" % (os.path.join(src, demos[0]), os.path.join(wt, pm.group(1), "zz_seeded_demo_test.go")))
    parts.append("cd %s" % wt)
    parts.append(gotest or "false")
    demo_cmd = " && ".join(parts)
    result["demo_cmd"] = demo_cmd
    rc, o = sh(demo_cmd, timeout=1200)
    note("demo on unchanged tree (expect pass)", rc, o)
    result["demo_pass_clean"] = rc == 0
    rc, o = sh("git -C %s apply %s" % (wt, patch))
    note("apply", rc, o)
    rc, o = sh("go build ./pkg/... ./cmd/...", cwd=wt, timeout=1200)
    note("build with patch", rc, o)
    result["builds"] = rc == 0
    rc, o = sh(demo_cmd, timeout=1200)
    note("demo with patch (expect fail)", rc, o)
    result["demo_fail_patched"] = rc != 0
    # remove the demo file before running the suite
    rcg, og = sh("git -C %s status --porcelain" % wt)
    for line in og.splitlines():
        if line.startswith("??"):
            try:
                os.remove(os.path.join(wt, line[3:].strip()))
            except Exception:
                pass
    if not args.skip_suite:
        rc, o = sh("go test -count=1 -p 4 ./pkg/... ./apis/... ./cmd/... 2>&1 | grep -v 'no test files' | grep -v '^ok' | tail -40", cwd=wt, timeout=3600)
        fails = [l for l in o.splitlines() if l.startswith("FAIL") or l.startswith("--- FAIL")]
        if fails:
            # known load-sensitive tests: retry the failing packages once
            pkgs = sorted(set(l.split()[1] for l in o.splitlines() if l.startswith("FAIL\t")))
            rc2, o2 = sh("go test -count=1 -p 2 %s 2>&1 | tail -20" % " ".join(pkgs), cwd=wt, timeout=1800) if pkgs else (1, o)
            fails2 = [l for l in o2.splitlines() if l.startswith("FAIL") or l.startswith("--- FAIL")]
            note("existing suite with patch (retry of %s)" % pkgs, 1 if fails2 else 0, o2)
            result["suite_pass"] = not fails2
        else:
            note("existing suite with patch", 0, o)
            result["suite_pass"] = True
    # our check(s)
    detected = {}
    for p in ([] if args.skip_check else [prop] + [x for x in args.also.split(",") if x]):
        cmd = "%s/verif check %s --tier %s" % (ROOT, p, args.tier)
        if args.runs:
            cmd += " --runs %d" % args.runs
        if args.budget:
            cmd += " --budget %g" % args.budget
        t0 = time.time()
        rc, o = sh(cmd, cwd=ROOT, timeout=7200, env={"VERIF_REPO": wt, "VERIF_WORKDIR": work})
        lines = [l for l in o.splitlines() if l.startswith("VIOLATION") or l.startswith("  monitor=") or l.startswith("KNOWN-FINDING") or " quick:" in l or " thorough:" in l]
        note("verif check %s (%s)" % (p, args.tier), rc, "\n".join(lines))
        detected[p] = {"exit": rc, "wall_s": round(time.time() - t0, 1), "lines": lines[:8]}
        # keep one replay as witness
        for l in lines:
            mm = re.search(r"replay=(\S+)", l)
            if mm and os.path.exists(mm.group(1)):
                shutil.copy(mm.group(1), os.path.join(out, "witness-%s.json" % p))
                break
    result["checks"] = detected
    result["detected"] = any(v["exit"] == 1 for v in detected.values())
    return finish(result, out, wt, work)


def finish(result, out, wt, work):
    sh("git -C %s worktree remove --force %s" % (REPO, wt))
    shutil.rmtree(wt, ignore_errors=True)
    shutil.rmtree(work, ignore_errors=True)
    sh("git -C %s worktree prune" % REPO)
    prev = {}
    try:
        prev = json.load(open(os.path.join(out, "meta.json")))
    except Exception:
        pass
    if "suite_pass" not in result and prev.get("confirmed", {}).get("suite_pass") is not None:
        result["suite_pass"] = prev["confirmed"]["suite_pass"]
    if not result.get("checks") and prev.get("checks"):
        result["checks"] = prev["checks"]
        result["detected"] = prev.get("detected")
    elif prev.get("checks"):
        merged = dict(prev["checks"]); merged.update(result["checks"]); result["checks"] = merged
        result["detected"] = any(v["exit"] == 1 for v in merged.values())
    m = {
        "id": result["id"], "property": result["property"],
        "summary": result["agent_meta"].get("summary"), "why_breaks": result["agent_meta"].get("why_breaks"),
        "needs": result["agent_meta"].get("needs"), "files": result["agent_meta"].get("files"),
        "confirmed": {k: result.get(k) for k in ("applies", "builds", "demo_pass_clean", "demo_fail_patched", "suite_pass", "repo_head")},
        "demo_cmd": result.get("demo_cmd"),
        "detected": result.get("detected"), "checks": result.get("checks"), "what_was_run": result["ran"],
    }
    with open(os.path.join(out, "meta.json"), "w") as f:
        json.dump(m, f, indent=1)
    print("[%s] detected=%s confirmed=%s" % (result["id"], m["detected"], m["confirmed"]), flush=True)


if __name__ == "__main__":
    main()
