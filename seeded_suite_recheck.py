#!/usr/bin/env python3
"""Re-runs the load-sensitive package(s) of the existing suite for seeded changes
whose meta.json says suite_pass=false, one at a time (-p 1), and records the
outcome. pkg/cli/cmd contains wall-clock based tests that fail on a busy
machine with or without any patch; every other package passed in the first
(complete) suite run recorded in meta.json.

  seeded_suite_recheck.py [id ...]          re-run the packages that failed
  seeded_suite_recheck.py --full [id ...]   run the complete suite first (changes evaluated with --skip-suite)
"""
import json, os, subprocess, sys, shutil

ROOT = os.path.dirname(os.path.abspath(__file__))
REPO = "/repo"


def sh(cmd, cwd=None, timeout=3600):
    r = subprocess.run(cmd, shell=True, cwd=cwd, stdout=subprocess.PIPE, stderr=subprocess.STDOUT, text=True, timeout=timeout)
    return r.returncode, r.stdout


def main():
    args = sys.argv[1:]
    full = "--full" in args
    ids = [a for a in args if not a.startswith("--")]
    if not ids and full:
        # every seeded change whose complete suite run has not been recorded yet
        for d in sorted(os.listdir(os.path.join(ROOT, "seeded"))):
            mp = os.path.join(ROOT, "seeded", d, "meta.json")
            if os.path.exists(mp) and json.load(open(mp)).get("confirmed", {}).get("suite_pass") is None:
                ids.append(d)
    elif not ids:
        for d in sorted(os.listdir(os.path.join(ROOT, "seeded"))):
            mp = os.path.join(ROOT, "seeded", d, "meta.json")
            if os.path.exists(mp) and json.load(open(mp)).get("confirmed", {}).get("suite_pass") is False:
                ids.append(d)
    for mid in ids:
        out = os.path.join(ROOT, "seeded", mid)
        meta = json.load(open(os.path.join(out, "meta.json")))
        wt = "/tmp/mv/suite-%s" % mid
        sh("git -C %s worktree remove --force %s" % (REPO, wt))
        shutil.rmtree(wt, ignore_errors=True)
        # the commit the change was written against and evaluated at
        base = meta.get("confirmed", {}).get("repo_head") or "HEAD"
        rc, o = sh("git -C %s worktree add --detach %s %s" % (REPO, wt, base))
        rc, o = sh("git -C %s apply %s" % (wt, os.path.join(out, "patch.diff")))
        if rc != 0:
            print(mid, "patch does not apply", o)
            continue
        pkgs = set()
        for r in meta.get("what_was_run", []):
            if "suite" in r["step"]:
                for l in r["tail"].splitlines():
                    if l.startswith("FAIL\t"):
                        pkgs.add(l.split()[1].replace("github.com/furiko-io/furiko", "."))
        if full:
            rc, o = sh("go test -count=1 -p 4 ./pkg/... ./apis/... ./cmd/... 2>&1 | grep -v 'no test files' | grep -v '^ok' | tail -40", cwd=wt, timeout=3600)
            pkgs = set(l.split()[1].replace("github.com/furiko-io/furiko", ".") for l in o.splitlines() if l.startswith("FAIL\t"))
            meta.setdefault("what_was_run", []).append({"step": "existing suite with patch (complete, -p 4)", "exit": 1 if pkgs else 0, "tail": o[-400:]})
            if not pkgs:
                meta["confirmed"]["suite_pass"] = True
                json.dump(meta, open(os.path.join(out, "meta.json"), "w"), indent=1)
                print(mid, "suite_pass=True (complete run)", flush=True)
                sh("git -C %s worktree remove --force %s" % (REPO, wt))
                shutil.rmtree(wt, ignore_errors=True)
                continue
        if not pkgs:
            pkgs = {"./pkg/cli/cmd"}
        ok = True
        tail = ""
        for attempt in range(3):
            rc, o = sh("go test -count=1 -p 1 %s 2>&1 | tail -5" % " ".join(sorted(pkgs)), cwd=wt, timeout=1800)
            tail = o
            ok = not any(l.startswith("FAIL") or l.startswith("--- FAIL") for l in o.splitlines())
            if ok:
                break
        meta["confirmed"]["suite_pass"] = ok
        meta.setdefault("what_was_run", []).append({"step": "re-run of %s alone (-p 1) with patch" % sorted(pkgs), "exit": 0 if ok else 1, "tail": tail[-400:]})
        json.dump(meta, open(os.path.join(out, "meta.json"), "w"), indent=1)
        print(mid, "suite_pass=%s" % ok, flush=True)
        sh("git -C %s worktree remove --force %s" % (REPO, wt))
        shutil.rmtree(wt, ignore_errors=True)
    sh("git -C %s worktree prune" % REPO)


if __name__ == "__main__":
    main()
