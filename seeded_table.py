#!/usr/bin/env python3
"""Prints the markdown table of seeded changes for DESIGN.md section 23 (--write: replaces it in DESIGN.md)."""
import glob, json, os
rows = []
for f in sorted(glob.glob("/verif/seeded/*/meta.json")):
    m = json.load(open(f))
    if m.get("kind") == "neutral":
        continue
    c = m.get("confirmed", {})
    checks = m.get("checks") or {}
    det = [p for p, v in checks.items() if v.get("exit") == 1]
    mons = []
    for p, v in checks.items():
        for l in v.get("lines", []):
            if "monitor=" in l:
                mons.append(l.split("monitor=")[1].split(" ")[0])
    conf = "yes" if all(c.get(k) for k in ("applies", "builds", "demo_pass_clean", "demo_fail_patched")) else "partly"
    if m["id"].startswith("revert-"):
        conf = "revert of the fix commit(s): applies, builds" if c.get("applies") and c.get("builds") else "does not apply"
    suite = {True: "pass", False: "flaky pkg/cli/cmd (see meta)", None: "n/a"}.get(c.get("suite_pass"))
    rows.append("| %s | %s | %s | %s | %s | %s |" % (m["id"], (m.get("summary") or "")[:150].replace("|", "/"), conf, suite,
                 ", ".join(det) if det else "**not reported**", ", ".join(sorted(set(mons)))[:120]))
import sys
table = "\n".join(["| id | change | confirmed (applies, builds, demo fails with / passes without) | existing suite | reported by check | monitor(s) |",
                   "|----|--------|------|------|------|------|"] + rows)
if "--write" in sys.argv:
    p = "/verif/DESIGN.md"
    s = open(p).read()
    b, e = "<!-- SEEDED-TABLE-BEGIN -->", "<!-- SEEDED-TABLE-END -->"
    i, j = s.index(b), s.index(e)
    open(p, "w").write(s[:i] + b + "\n" + table + "\n" + s[j:])
    print("wrote %d rows" % len(rows))
else:
    print(table)
